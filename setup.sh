#!/bin/bash
# Offline setup: build the Rust harness from /repo's working tree (rebuilt on demand by the checks as well).
set -e
HERE="$(cd "$(dirname "${BASH_SOURCE[0]}")" && pwd)"
cd "$HERE"
export PI2_REPO="${PI2_REPO:-/repo}"
export PYTHONPATH="$HERE:$PI2_REPO/generation/src"
export RUSTUP_TOOLCHAIN=stable-x86_64-unknown-linux-gnu
export PYTHONDONTWRITEBYTECODE=1
mkdir -p build evidence replays
/venv/bin/python -c "from mc.common import build_harness; print(build_harness())"
