
// =====================================================================================
// /verif harness tail (E1). This text is appended to a copy of /repo/rust/src/lib.rs so
// that it lives in the same module as the checker and can reach its private functions.
// One request per input line, one answer per output line. Every answer is a pure
// function of the request line (plus the alphabet set by the last `A` line).
// =====================================================================================

mod vharness {
    use super::*;
    use std::io::{self, BufRead, Write};
    use std::panic::{self, AssertUnwindSafe};
    use std::string::String;
    use std::fmt::Write as FmtWrite;

    // ---------------------------------------------------------------- dumping
    fn dump_ids(ids: &IdList, out: &mut String) {
        out.push('(');
        for (i, x) in ids.iter().enumerate() {
            if i > 0 {
                out.push(' ');
            }
            let _ = write!(out, "{}", x);
        }
        out.push(')');
    }

    pub fn dump_pattern(p: &Pattern, out: &mut String) {
        match p {
            Pattern::EVar(n) => {
                let _ = write!(out, "(evar {})", n);
            }
            Pattern::SVar(n) => {
                let _ = write!(out, "(svar {})", n);
            }
            Pattern::Symbol(n) => {
                let _ = write!(out, "(sym {})", n);
            }
            Pattern::Implies { left, right } => {
                out.push_str("(imp ");
                dump_pattern(left, out);
                out.push(' ');
                dump_pattern(right, out);
                out.push(')');
            }
            Pattern::App { left, right } => {
                out.push_str("(app ");
                dump_pattern(left, out);
                out.push(' ');
                dump_pattern(right, out);
                out.push(')');
            }
            Pattern::Exists { var, subpattern } => {
                let _ = write!(out, "(ex {} ", var);
                dump_pattern(subpattern, out);
                out.push(')');
            }
            Pattern::Mu { var, subpattern } => {
                let _ = write!(out, "(mu {} ", var);
                dump_pattern(subpattern, out);
                out.push(')');
            }
            Pattern::MetaVar {
                id,
                e_fresh,
                s_fresh,
                positive,
                negative,
                app_ctx_holes,
            } => {
                let _ = write!(out, "(mv {} ", id);
                dump_ids(e_fresh, out);
                out.push(' ');
                dump_ids(s_fresh, out);
                out.push(' ');
                dump_ids(positive, out);
                out.push(' ');
                dump_ids(negative, out);
                out.push(' ');
                dump_ids(app_ctx_holes, out);
                out.push(')');
            }
            Pattern::ESubst {
                pattern,
                evar_id,
                plug,
            } => {
                out.push_str("(esub ");
                dump_pattern(pattern, out);
                let _ = write!(out, " {} ", evar_id);
                dump_pattern(plug, out);
                out.push(')');
            }
            Pattern::SSubst {
                pattern,
                svar_id,
                plug,
            } => {
                out.push_str("(ssub ");
                dump_pattern(pattern, out);
                let _ = write!(out, " {} ", svar_id);
                dump_pattern(plug, out);
                out.push(')');
            }
        }
    }

    fn dump_state(stack: &Stack, memory: &Memory, claims: &Claims) -> String {
        let mut out = String::new();
        for (i, t) in stack.iter().enumerate() {
            if i > 0 {
                out.push(';');
            }
            match t {
                Term::Pattern(p) => {
                    out.push_str("P:");
                    dump_pattern(p, &mut out);
                }
                Term::Proved(p) => {
                    out.push_str("T:");
                    dump_pattern(p, &mut out);
                }
            }
        }
        out.push('|');
        for (i, t) in memory.iter().enumerate() {
            if i > 0 {
                out.push(';');
            }
            match t {
                Entry::Pattern(p) => {
                    out.push_str("P:");
                    dump_pattern(p, &mut out);
                }
                Entry::Proved(p) => {
                    out.push_str("T:");
                    dump_pattern(p, &mut out);
                }
            }
        }
        out.push('|');
        for (i, p) in claims.iter().enumerate() {
            if i > 0 {
                out.push(';');
            }
            dump_pattern(p, &mut out);
        }
        out
    }

    // ---------------------------------------------------------------- helpers
    fn unhex(s: &str) -> Option<Vec<u8>> {
        if s == "-" {
            return Some(Vec::new());
        }
        if s.len() % 2 != 0 {
            return None;
        }
        let b = s.as_bytes();
        let mut v = Vec::with_capacity(s.len() / 2);
        let hv = |c: u8| -> Option<u8> {
            match c {
                b'0'..=b'9' => Some(c - b'0'),
                b'a'..=b'f' => Some(c - b'a' + 10),
                b'A'..=b'F' => Some(c - b'A' + 10),
                _ => None,
            }
        };
        let mut i = 0;
        while i < b.len() {
            v.push(hv(b[i])? * 16 + hv(b[i + 1])?);
            i += 2;
        }
        Some(v)
    }

    /// Runs the three phases exactly as `verify` does, but keeps the state.
    /// `upto`: 0 = gamma only, 1 = gamma+claim, 2 = all three (without the final claims check).
    fn run3(g: &Vec<u8>, c: &Vec<u8>, p: &Vec<u8>, upto: u8) -> Option<(Stack, Memory, Claims)> {
        let r = panic::catch_unwind(AssertUnwindSafe(|| {
            let mut claims: Claims = Vec::new();
            let mut memory: Memory = Vec::new();
            let mut stack: Stack = Vec::new();
            execute_instructions(g, &mut stack, &mut memory, &mut claims, ExecutionPhase::Gamma);
            if upto >= 1 {
                stack.clear();
                execute_instructions(c, &mut stack, &mut memory, &mut claims, ExecutionPhase::Claim);
            }
            if upto >= 2 {
                stack.clear();
                execute_instructions(p, &mut stack, &mut memory, &mut claims, ExecutionPhase::Proof);
            }
            (stack, memory, claims)
        }));
        r.ok()
    }

    fn top_pattern(stack: &mut Stack) -> Option<Rc<Pattern>> {
        match stack.pop() {
            Some(Term::Pattern(p)) => Some(p),
            Some(Term::Proved(p)) => Some(p),
            None => None,
        }
    }

    // ---------------------------------------------------------------- E3r: finite-model evaluator
    // Own term type: the evaluator never touches the checker's data or judgements.
    #[derive(Debug, Clone)]
    enum T {
        EVar(usize),
        SVar(usize),
        Sym(usize),
        Imp(Box<T>, Box<T>),
        App(Box<T>, Box<T>),
        Ex(usize, Box<T>),
        Mu(usize, Box<T>),
    }

    struct Parser<'a> {
        b: &'a [u8],
        i: usize,
    }
    impl<'a> Parser<'a> {
        fn ws(&mut self) {
            while self.i < self.b.len() && self.b[self.i] == b' ' {
                self.i += 1;
            }
        }
        fn word(&mut self) -> &'a [u8] {
            self.ws();
            let s = self.i;
            while self.i < self.b.len() && self.b[self.i] != b' ' && self.b[self.i] != b'(' && self.b[self.i] != b')' {
                self.i += 1;
            }
            &self.b[s..self.i]
        }
        fn num(&mut self) -> Option<usize> {
            let w = self.word();
            core::str::from_utf8(w).ok()?.parse::<usize>().ok()
        }
        fn eat(&mut self, c: u8) -> Option<()> {
            self.ws();
            if self.i < self.b.len() && self.b[self.i] == c {
                self.i += 1;
                Some(())
            } else {
                None
            }
        }
        fn term(&mut self) -> Option<T> {
            self.eat(b'(')?;
            let w = self.word();
            let r = match w {
                b"evar" => T::EVar(self.num()?),
                b"svar" => T::SVar(self.num()?),
                b"sym" => T::Sym(self.num()?),
                b"imp" => {
                    let a = self.term()?;
                    let b = self.term()?;
                    T::Imp(Box::new(a), Box::new(b))
                }
                b"app" => {
                    let a = self.term()?;
                    let b = self.term()?;
                    T::App(Box::new(a), Box::new(b))
                }
                b"ex" => {
                    let n = self.num()?;
                    let a = self.term()?;
                    T::Ex(n, Box::new(a))
                }
                b"mu" => {
                    let n = self.num()?;
                    let a = self.term()?;
                    T::Mu(n, Box::new(a))
                }
                _ => return None,
            };
            self.eat(b')')?;
            Some(r)
        }
    }

    fn collect(t: &T, ev: &mut Vec<usize>, sv: &mut Vec<usize>, sy: &mut Vec<usize>, has_app: &mut bool) {
        match t {
            T::EVar(n) => {
                if !ev.contains(n) {
                    ev.push(*n)
                }
            }
            T::SVar(n) => {
                if !sv.contains(n) {
                    sv.push(*n)
                }
            }
            T::Sym(n) => {
                if !sy.contains(n) {
                    sy.push(*n)
                }
            }
            T::Imp(a, b) => {
                collect(a, ev, sv, sy, has_app);
                collect(b, ev, sv, sy, has_app);
            }
            T::App(a, b) => {
                *has_app = true;
                collect(a, ev, sv, sy, has_app);
                collect(b, ev, sv, sy, has_app);
            }
            T::Ex(n, a) => {
                if !ev.contains(n) {
                    ev.push(*n)
                }
                collect(a, ev, sv, sy, has_app);
            }
            T::Mu(n, a) => {
                if !sv.contains(n) {
                    sv.push(*n)
                }
                collect(a, ev, sv, sy, has_app);
            }
        }
    }

    struct Model<'a> {
        n: usize,              // carrier size
        full: u32,             // bitmask of the carrier
        sym: &'a [u32],        // symbol id (dense index) -> subset
        app: &'a [u32],        // app[a*n+b] -> subset
    }

    // returns None if a mu did not stabilise (non-monotone body)
    fn eval(t: &T, m: &Model, erho: &mut [usize; 8], srho: &mut [u32; 8], ev: &[usize], sv: &[usize], sy: &[usize]) -> Option<u32> {
        Some(match t {
            T::EVar(n) => 1u32 << erho[ev.iter().position(|x| x == n).unwrap()],
            T::SVar(n) => srho[sv.iter().position(|x| x == n).unwrap()],
            T::Sym(n) => m.sym[sy.iter().position(|x| x == n).unwrap()],
            T::Imp(a, b) => {
                let x = eval(a, m, erho, srho, ev, sv, sy)?;
                let y = eval(b, m, erho, srho, ev, sv, sy)?;
                (m.full & !x) | y
            }
            T::App(a, b) => {
                let x = eval(a, m, erho, srho, ev, sv, sy)?;
                let y = eval(b, m, erho, srho, ev, sv, sy)?;
                let mut r = 0u32;
                for i in 0..m.n {
                    if x & (1 << i) != 0 {
                        for j in 0..m.n {
                            if y & (1 << j) != 0 {
                                r |= m.app[i * m.n + j];
                            }
                        }
                    }
                }
                r
            }
            T::Ex(n, a) => {
                let k = ev.iter().position(|x| x == n).unwrap();
                let old = erho[k];
                let mut r = 0u32;
                for i in 0..m.n {
                    erho[k] = i;
                    match eval(a, m, erho, srho, ev, sv, sy) {
                        Some(v) => r |= v,
                        None => {
                            erho[k] = old;
                            return None;
                        }
                    }
                }
                erho[k] = old;
                r
            }
            T::Mu(n, a) => {
                let k = sv.iter().position(|x| x == n).unwrap();
                let old = srho[k];
                let mut cur = 0u32;
                let mut rounds = 0usize;
                let limit = (1usize << m.n) + 2;
                loop {
                    srho[k] = cur;
                    let nxt = match eval(a, m, erho, srho, ev, sv, sy) {
                        Some(v) => v,
                        None => {
                            srho[k] = old;
                            return None;
                        }
                    };
                    if nxt == cur {
                        break;
                    }
                    // a monotone body yields an increasing chain from the empty set
                    if nxt & cur != cur {
                        srho[k] = old;
                        return None;
                    }
                    cur = nxt;
                    rounds += 1;
                    if rounds > limit {
                        srho[k] = old;
                        return None;
                    }
                }
                srho[k] = old;
                cur
            }
        })
    }

    /// model class: "c<maxcarrier>"; app family for carrier 3 is restricted (see DESIGN §3 E3).
    /// Answer: VALID <models> | INVALID <description> | NONMONO <description>
    fn validity(t: &T, maxn: usize, budget: u64, counter: &mut u64) -> String {
        let mut ev = Vec::new();
        let mut sv = Vec::new();
        let mut sy = Vec::new();
        let mut has_app = false;
        collect(t, &mut ev, &mut sv, &mut sy, &mut has_app);
        if ev.len() > 8 || sv.len() > 8 || sy.len() > 3 {
            return String::from("TOOBIG");
        }
        let mut skipped = false;
        for n in 1..=maxn {
            let full: u32 = (1u32 << n) - 1;
            let nsub: u32 = 1u32 << n;
            if n >= 3 {
                // estimated number of (model, valuation) pairs; skip the carrier when over budget
                let apps: f64 = if has_app { 1034.0 } else { 1.0 };
                let est = apps
                    * (nsub as f64).powi(sy.len() as i32)
                    * (n as f64).powi(ev.len() as i32)
                    * (nsub as f64).powi(sv.len() as i32);
                if est > budget as f64 {
                    skipped = true;
                    continue;
                }
            }
            // application interpretations
            let mut app_family: Vec<Vec<u32>> = Vec::new();
            if !has_app {
                app_family.push(vec![0u32; n * n]);
            } else if n <= 2 {
                // all maps M x M -> P(M)
                let cells = n * n;
                let total = (nsub as u64).pow(cells as u32);
                for code in 0..total {
                    let mut c = code;
                    let mut tbl = vec![0u32; cells];
                    for k in 0..cells {
                        tbl[k] = (c % nsub as u64) as u32;
                        c /= nsub as u64;
                    }
                    app_family.push(tbl);
                }
            } else {
                // carrier 3: maps depending on one argument only, constants, diagonal-style maps
                let per_arg = (nsub as u64).pow(n as u32); // 512
                for code in 0..per_arg {
                    let mut c = code;
                    let mut f = vec![0u32; n];
                    for k in 0..n {
                        f[k] = (c % nsub as u64) as u32;
                        c /= nsub as u64;
                    }
                    let mut t1 = vec![0u32; n * n];
                    let mut t2 = vec![0u32; n * n];
                    for i in 0..n {
                        for j in 0..n {
                            t1[i * n + j] = f[i];
                            t2[i * n + j] = f[j];
                        }
                    }
                    app_family.push(t1);
                    app_family.push(t2);
                }
                for s in 0..nsub {
                    // diagonal: app(i,i)=s else empty ; equality-like: app(i,j)= {i} if i==j
                    let mut t3 = vec![0u32; n * n];
                    for i in 0..n {
                        t3[i * n + i] = s;
                    }
                    app_family.push(t3);
                }
                let mut t4 = vec![0u32; n * n];
                let mut t5 = vec![0u32; n * n];
                for i in 0..n {
                    for j in 0..n {
                        t4[i * n + j] = if i == j { 1 << i } else { 0 };
                        t5[i * n + j] = 1 << ((i + j) % n);
                    }
                }
                app_family.push(t4);
                app_family.push(t5);
            }
            // symbol interpretations
            let nsym = sy.len();
            let sym_total = (nsub as u64).pow(nsym as u32);
            let e_total = (n as u64).pow(ev.len() as u32);
            let s_total = (nsub as u64).pow(sv.len() as u32);
            for app in app_family.iter() {
                for scode in 0..sym_total {
                    let mut c = scode;
                    let mut symv = vec![0u32; nsym];
                    for k in 0..nsym {
                        symv[k] = (c % nsub as u64) as u32;
                        c /= nsub as u64;
                    }
                    let m = Model { n, full, sym: &symv, app: &app };
                    for ecode in 0..e_total {
                        let mut erho = [0usize; 8];
                        let mut c = ecode;
                        for k in 0..ev.len() {
                            erho[k] = (c % n as u64) as usize;
                            c /= n as u64;
                        }
                        for scode2 in 0..s_total {
                            let mut srho = [0u32; 8];
                            let mut c = scode2;
                            for k in 0..sv.len() {
                                srho[k] = (c % nsub as u64) as u32;
                                c /= nsub as u64;
                            }
                            *counter += 1;
                            match eval(t, &m, &mut erho, &mut srho, &ev, &sv, &sy) {
                                Some(v) => {
                                    if v != full {
                                        return format!(
                                            "INVALID carrier={} value={:b} sym={:?}->{:?} app={:?} evars={:?}->{:?} svars={:?}->{:?}",
                                            n, v, sy, symv, app, ev, &erho[..ev.len()], sv, &srho[..sv.len()]
                                        );
                                    }
                                }
                                None => {
                                    return format!(
                                        "NONMONO carrier={} sym={:?}->{:?} app={:?} evars={:?}->{:?} svars={:?}->{:?}",
                                        n, sy, symv, app, ev, &erho[..ev.len()], sv, &srho[..sv.len()]
                                    );
                                }
                            }
                        }
                    }
                }
            }
        }
        if skipped {
            String::from("VALID upto2")
        } else {
            String::from("VALID")
        }
    }

    // evaluate one term in one explicitly given model (for cross-checking E3 against E3r)
    // D <term> <n> <sym subsets comma> <app table comma> <evar vals comma> <svar vals comma>
    // orders follow first-occurrence order of collect()
    fn eval_one(args: &[&str], rest: &str) -> String {
        let mut p = Parser { b: rest.as_bytes(), i: 0 };
        let t = match p.term() {
            Some(t) => t,
            None => return String::from("ERR parse"),
        };
        let mut ev = Vec::new();
        let mut sv = Vec::new();
        let mut sy = Vec::new();
        let mut has_app = false;
        collect(&t, &mut ev, &mut sv, &mut sy, &mut has_app);
        let parse_list = |s: &str| -> Vec<u32> {
            if s == "-" {
                Vec::new()
            } else {
                s.split(',').map(|x| x.parse::<u32>().unwrap_or(0)).collect()
            }
        };
        if args.len() < 5 {
            return String::from("ERR args");
        }
        let n: usize = args[0].parse().unwrap_or(1);
        let symv = parse_list(args[1]);
        let mut app = parse_list(args[2]);
        if app.len() < n * n {
            app.resize(n * n, 0);
        }
        let evals = parse_list(args[3]);
        let svals = parse_list(args[4]);
        if symv.len() < sy.len() || evals.len() < ev.len() || svals.len() < sv.len() {
            return String::from("ERR short");
        }
        let mut erho = [0usize; 8];
        let mut srho = [0u32; 8];
        for k in 0..ev.len() {
            erho[k] = evals[k] as usize;
        }
        for k in 0..sv.len() {
            srho[k] = svals[k];
        }
        let m = Model { n, full: (1u32 << n) - 1, sym: &symv, app: &app };
        match eval(&t, &m, &mut erho, &mut srho, &ev, &sv, &sy) {
            Some(v) => format!("OK {}", v),
            None => String::from("NONMONO"),
        }
    }

    // ---------------------------------------------------------------- main loop
    pub fn main_loop() {
        panic::set_hook(Box::new(|_| {}));
        let stdin = io::stdin();
        let stdout = io::stdout();
        let mut out = io::BufWriter::with_capacity(1 << 20, stdout.lock());
        let mut reader = io::BufReader::with_capacity(1 << 20, stdin.lock());
        let mut alphabet: Vec<Vec<u8>> = Vec::new();
        let mut eval_counter: u64 = 0;
        let mut linebuf = String::new();
        loop {
            linebuf.clear();
            match reader.read_line(&mut linebuf) {
                Ok(0) => break,
                Ok(_) => {}
                Err(_) => break,
            }
            let line: &str = linebuf.trim_end_matches(|c| c == '\n' || c == '\r');
            let mut it = line.splitn(2, ' ');
            let cmd = it.next().unwrap_or("");
            let rest = it.next().unwrap_or("");
            let f: Vec<&str> = rest.split(' ').collect();
            let ans: String = match cmd {
                "V" => {
                    if f.len() < 3 {
                        String::from("ERR")
                    } else {
                        match (unhex(f[0]), unhex(f[1]), unhex(f[2])) {
                            (Some(g), Some(c), Some(p)) => {
                                let r = panic::catch_unwind(AssertUnwindSafe(|| verify(&g, &c, &p)));
                                if r.is_ok() {
                                    String::from("ACCEPT")
                                } else {
                                    String::from("REJECT")
                                }
                            }
                            _ => String::from("ERR"),
                        }
                    }
                }
                "R" => {
                    // R <upto> g c p
                    if f.len() < 4 {
                        String::from("ERR")
                    } else {
                        let upto: u8 = f[0].parse().unwrap_or(2);
                        match (unhex(f[1]), unhex(f[2]), unhex(f[3])) {
                            (Some(g), Some(c), Some(p)) => match run3(&g, &c, &p, upto) {
                                Some((s, m, c)) => format!("OK {}", dump_state(&s, &m, &c)),
                                None => String::from("REJECT"),
                            },
                            _ => String::from("ERR"),
                        }
                    }
                }
                "A" => {
                    alphabet.clear();
                    let mut ok = true;
                    for w in rest.split(',') {
                        match unhex(w) {
                            Some(v) => alphabet.push(v),
                            None => ok = false,
                        }
                    }
                    if ok {
                        format!("OK {}", alphabet.len())
                    } else {
                        String::from("ERR")
                    }
                }
                "X" => {
                    // X <upto> g c p : for each alphabet instruction a, run with a appended to the
                    // buffer of phase <upto>; answers are tab separated
                    if f.len() < 4 {
                        String::from("ERR")
                    } else {
                        let upto: u8 = f[0].parse().unwrap_or(2);
                        match (unhex(f[1]), unhex(f[2]), unhex(f[3])) {
                            (Some(g), Some(c), Some(p)) => {
                                let mut res = String::new();
                                for (k, a) in alphabet.iter().enumerate() {
                                    if k > 0 {
                                        res.push('\t');
                                    }
                                    let (mut g2, mut c2, mut p2) = (g.clone(), c.clone(), p.clone());
                                    match upto {
                                        0 => g2.extend_from_slice(a),
                                        1 => c2.extend_from_slice(a),
                                        _ => p2.extend_from_slice(a),
                                    }
                                    match run3(&g2, &c2, &p2, upto) {
                                        Some((s, m, c)) => {
                                            res.push_str("OK ");
                                            res.push_str(&dump_state(&s, &m, &c));
                                        }
                                        None => res.push_str("REJECT"),
                                    }
                                }
                                res
                            }
                            _ => String::from("ERR"),
                        }
                    }
                }
                "J" => {
                    // J <hex prog> <fn> <id> : judgement on the top of the stack after prog (proof phase)
                    if f.len() < 3 {
                        String::from("ERR")
                    } else {
                        match unhex(f[0]) {
                            Some(p) => {
                                let id: u8 = f[2].parse().unwrap_or(0);
                                let e = Vec::new();
                                match run3(&e, &e, &p, 2) {
                                    Some((mut s, _, _)) => match top_pattern(&mut s) {
                                        Some(t) => {
                                            let r = panic::catch_unwind(AssertUnwindSafe(|| match f[1] {
                                                "e_fresh" => t.e_fresh(id),
                                                "s_fresh" => t.s_fresh(id),
                                                "positive" => t.positive(id),
                                                "negative" => t.negative(id),
                                                _ => panic!("unknown fn"),
                                            }));
                                            match r {
                                                Ok(true) => String::from("true"),
                                                Ok(false) => String::from("false"),
                                                Err(_) => String::from("REJECT"),
                                            }
                                        }
                                        None => String::from("REJECT"),
                                    },
                                    None => String::from("REJECT"),
                                }
                            }
                            None => String::from("ERR"),
                        }
                    }
                }
                "U" => {
                    // U <hex prog> <e|s> <id>: prog leaves [... plug pattern]; apply_{e,s}subst(pattern,id,plug)
                    if f.len() < 3 {
                        String::from("ERR")
                    } else {
                        match unhex(f[0]) {
                            Some(p) => {
                                let id: u8 = f[2].parse().unwrap_or(0);
                                let e = Vec::new();
                                match run3(&e, &e, &p, 2) {
                                    Some((mut s, _, _)) => {
                                        let pat = top_pattern(&mut s);
                                        let plug = top_pattern(&mut s);
                                        match (pat, plug) {
                                            (Some(pat), Some(plug)) => {
                                                let r = panic::catch_unwind(AssertUnwindSafe(|| {
                                                    if f[1] == "e" {
                                                        apply_esubst(&pat, id, &plug)
                                                    } else {
                                                        apply_ssubst(&pat, id, &plug)
                                                    }
                                                }));
                                                match r {
                                                    Ok(t) => {
                                                        let mut o = String::from("OK ");
                                                        dump_pattern(&t, &mut o);
                                                        o
                                                    }
                                                    Err(_) => String::from("REJECT"),
                                                }
                                            }
                                            _ => String::from("REJECT"),
                                        }
                                    }
                                    None => String::from("REJECT"),
                                }
                            }
                            None => String::from("ERR"),
                        }
                    }
                }
                "I" => {
                    // I <hex prog> <ids comma separated>: prog leaves [... plug_k ... plug_1 pattern];
                    // first id <-> first popped plug; calls instantiate_internal(pattern, ids, plugs)
                    if f.len() < 2 {
                        String::from("ERR")
                    } else {
                        match unhex(f[0]) {
                            Some(p) => {
                                let ids: Vec<u8> = if f[1] == "-" {
                                    Vec::new()
                                } else {
                                    f[1].split(',').map(|x| x.parse::<u8>().unwrap_or(0)).collect()
                                };
                                let e = Vec::new();
                                match run3(&e, &e, &p, 2) {
                                    Some((mut s, _, _)) => {
                                        let pat = top_pattern(&mut s);
                                        let mut plugs: Vec<Rc<Pattern>> = Vec::new();
                                        let mut ok = pat.is_some();
                                        for _ in 0..ids.len() {
                                            match top_pattern(&mut s) {
                                                Some(x) => plugs.push(x),
                                                None => ok = false,
                                            }
                                        }
                                        if !ok {
                                            String::from("REJECT")
                                        } else {
                                            let pat = pat.unwrap();
                                            let r = panic::catch_unwind(AssertUnwindSafe(|| {
                                                instantiate_internal(&pat, &ids, &plugs)
                                            }));
                                            match r {
                                                Ok(Some(t)) => {
                                                    let mut o = String::from("OK ");
                                                    dump_pattern(&t, &mut o);
                                                    o
                                                }
                                                Ok(None) => {
                                                    let mut o = String::from("OK ");
                                                    dump_pattern(&pat, &mut o);
                                                    o
                                                }
                                                Err(_) => String::from("REJECT"),
                                            }
                                        }
                                    }
                                    None => String::from("REJECT"),
                                }
                            }
                            None => String::from("ERR"),
                        }
                    }
                }
                "E" => {
                    // E <maxcarrier> <term>
                    let mut it2 = rest.splitn(2, ' ');
                    let maxn: usize = it2.next().unwrap_or("2").parse().unwrap_or(2);
                    let tt = it2.next().unwrap_or("");
                    let mut p = Parser { b: tt.as_bytes(), i: 0 };
                    match p.term() {
                        Some(t) => validity(&t, maxn, 300000, &mut eval_counter),
                        None => String::from("ERR parse"),
                    }
                }
                "D" => {
                    // D n syms app evals svals <term>
                    let parts: Vec<&str> = rest.splitn(6, ' ').collect();
                    if parts.len() < 6 {
                        String::from("ERR")
                    } else {
                        eval_one(&parts[0..5], parts[5])
                    }
                }
                "C" => format!("OK {}", eval_counter),
                "Q" => break,
                _ => String::from("ERR unknown command"),
            };
            let _ = out.write_all(ans.as_bytes());
            let _ = out.write_all(b"\n");
            // flush only when no further request is already buffered (batch friendly)
            if reader.buffer().is_empty() {
                let _ = out.flush();
            }
        }
        let _ = out.flush();
    }
}

fn main() {
    vharness::main_loop();
}
