#!/usr/bin/env python3
"""Writes mc/c10_baseline.json: the documented schema (docstring text) of every lemma entry point of the tree the
checks were built against. C10 reads the LIVE docstring first; this table only decides what happens when a live
docstring cannot be read: an entry known here falls back to its recorded schema, an entry unknown here (added later,
with documentation this check cannot read) is reported as unchecked instead of raising an alarm."""
import json
import os
import sys

HERE = os.path.dirname(os.path.dirname(os.path.abspath(__file__)))
sys.path.insert(0, HERE)
os.environ.setdefault('PI2_REPO', '/repo')
from mc import c10  # noqa: E402

table = {}
for name, f in c10.entry_points():
    doc = c10.HAND.get(name) or f.__doc__
    if name in c10.NOT_SCHEMATIC:
        continue
    if doc and c10.parse_docstring(doc) is not None:
        table[name] = doc
json.dump(table, open(os.path.join(HERE, 'mc', 'c10_baseline.json'), 'w'), indent=1, sort_keys=True)
print(len(table), 'entries')
