#!/usr/bin/env python3
"""Regenerates /verif/MANIFEST.json from the table below (single source of truth for the interface)."""
import json
import os
import sys

HERE = os.path.dirname(os.path.dirname(os.path.abspath(__file__)))

BASELINE = ("cd /repo && /venv/bin/python -m pytest -ra -q -p no:cacheprovider --timeout=900 "
            "--continue-on-collection-errors")

CHECKS = {
    'C05': dict(
        level='model_checking',
        text=("Lock-step explicit-state exploration: BFS over instruction sequences (58-instruction alphabet incl. "
              "unknown/unspecified opcodes, all three phases, states deduplicated on the checker's canonical dump) where "
              "every transition runs the real Rust execute_instructions and the reference machine transcribed from "
              "docs/proof-language.md; plus every raw byte string up to length 3/4 over 28 byte values and every "
              "prefix/1-byte replacement (256 values)/deletion/transposition of the shipped proof triples. Verdict and "
              "full state (stack, memory, claims) are compared on every one."),
        note=("Trusted: mc/refmachine.py as a reading of the informal document (unspecified corners are three-valued, "
              "never guessed); bounds: depth 3 (quick) / 4 (thorough), stack<=4, memory<=3."),
        technique='explicit-state BFS of the real checker in lock-step with a reference machine; exhaustive short programs and mutation enumeration',
        design='5/C05',
    ),
}

CHECKS['C01'] = dict(
    level='model_checking',
    text=("Explicit-state BFS over instruction streams on the real execute_instructions (proof phase; empty theory and "
          "a valid theory; full 43-instruction alphabet to depth 4/5 and a rule-centred 22-instruction alphabet to depth "
          "6/7, states deduplicated by canonical dump) plus a derivation-closure search that saturates the theorem set "
          "under the real ModusPonens/Generalization/Substitution/Instantiate executed as bytes (plus three deeper closures over the unary rules with targeted plug pools and one with a derived weakening step). Invariant in every "
          "state: every term tagged Proved is valid -- every admissible instance over a pool of concrete plugs evaluates "
          "to the full carrier in every model of the enumerated class (carriers 1-2 complete, carrier 3 thorough)."),
    note=("Trusted: the finite-model evaluator inside the harness (cross-checked on every run against the Python "
          "reference on all small patterns) and the textbook instantiation in mc/refpat.py; validity only over the "
          "enumerated finite model class and plug pool; states beyond stack 4 / memory 3 / 14 nodes are counted, not expanded."),
    technique='explicit-state BFS + derivation closure on the real checker; semantic validity invariant over an enumerated finite model class',
    design='5/C01',
)
CHECKS['C11'] = dict(
    level='exploration',
    text=("Bounded-exhaustive one-step exploration: every (pattern, variable, plug) and (pattern, map[, second map]) over "
          "the universe of patterns with <=3/4 constructor or notation applications (incl. constrained metavariables, "
          "pending substitutions, partial Instantiate objects) is run through the real Python apply_esubst/apply_ssubst/"
          "instantiate and compared with a textbook reference, incl. identity, deferral, simultaneity and composition; "
          "the machine-constructible part of the space goes through the Rust apply_esubst/apply_ssubst/"
          "instantiate_internal via the harness; the substitution lemma is checked on the finite-model semantics."),
    note=("Trusted: mc/refpat.py msubst/minst (textbook definitions) and mc/semantics.py. Maps violating declared "
          "metavariable constraints are excluded (C07 covers that gap). Bounds: size 3/4, pool 15 plugs."),
    technique='bounded-exhaustive enumeration of the input space against a reference model',
    design='5/C11',
)

CHECKS['C12'] = dict(
    level='exploration',
    text=("Bounded-exhaustive: S = every pattern with <=3/4 constructor-or-notation applications (propositional notations "
          "nested arbitrarily) plus every shipped notation (propositional, definedness, Kore, sorted/Kore quantifiers, forall, "
          "n-ary applications) at every argument tuple from a pool. `==` is evaluated on all of S x S and must coincide with "
          "structural equality of independently computed full expansions (which makes it an equivalence on S); every "
          "operation (evar_is_free, metavars, apply_esubst/ssubst, instantiate, match_single on either side, unwrap/extract, "
          "deconstruct, deconstruct_nary_application) must give equal results on a pattern and on its expansion."),
    note='Trusted: mc/bridge.py expand() as the independent expansion. Bounds: size 3/4, argument pool 4/5.',
    technique='bounded-exhaustive enumeration of pattern pairs and operation arguments against an expansion oracle',
    design='5/C12',
)
CHECKS['C13'] = dict(
    level='exploration',
    text=("Bounded-exhaustive: all ordered (pattern, instance) pairs of the C12 universe with three seed substitutions "
          "(soundness, seed preservation, agreement with a reference matcher); every substitution-free pattern x every "
          "map into a 9-element pool (completeness, incl. the empty solution, also through the list form match()); all "
          "equation lists up to length 2/3 over 14 equations; every shipped notation x argument tuple through "
          "matches/assert_matches (incl. arity 0 and the notation-free expansion). The universe includes variables of both "
          "sorts hidden behind definitions that expand to a bare variable (identity, nested identity, 0-ary alias), free and under binders."),
    note='Trusted: reference matcher in mc/c13.py on independently expanded terms; no completeness claim for patterns with pending substitutions.',
    technique='bounded-exhaustive enumeration against a reference matcher',
    design='5/C13',
)

CHECKS['C06'] = dict(
    level='exploration',
    text=("Bounded-exhaustive: every machine-constructible meta-pattern of <=4/5 nodes (constrained metavariables, stacked "
          "ESubst/SSubst, binders) x variable x the four Rust judgements (called through the harness on the real functions), "
          "and Pattern.evar_is_free on the Python universe with notation. For every 'true' answer all admissible concrete "
          "instantiations over a pool of 12 plugs are enumerated and the judgement is confirmed on the concrete instance by "
          "ground-truth free-variable / polarity computation; notation and expansion must get the same answer."),
    note='Trusted: mc/refpat.py (free variables, polarity, textbook instantiation). Instances that would need alpha-renaming are skipped.',
    technique='bounded-exhaustive enumeration of (pattern, variable, judgement, instantiation) against ground truth',
    design='5/C06',
)
CHECKS['C07'] = dict(
    level='exploration',
    text=("Bounded-exhaustive: modus_ponens on all ordered pairs of ~1150 conclusions, exists_generalization on all "
          "(conclusion, variable), instantiate on all (conclusion, map of <=2 metavariables into a 9-plug pool, incl. "
          "constraint-violating maps), each on BasicInterpreter and StatefulInterpreter. Oracle: the documented rule on "
          "independently expanded terms; a call must raise or return exactly the documented conclusion."),
    note=("Known finding (known_findings.json): instantiation with a plug that violates a declared constraint is returned "
          "(can_be_replaced_by is a stub). Trusted: document judgements as implemented in mc/refmachine.py."),
    technique='bounded-exhaustive enumeration of rule applications against the documented rule',
    design='5/C07',
)

CHECKS['C09'] = dict(
    level='exploration',
    text=("Bounded-exhaustive against truth tables: every formula with <=4/5 leaves over {phi0,phi1,phi2,bot,->}, every "
          "formula of <=2/3 connectives over the notations ~,/\\,\\/,<->,T, every ordered list of <=3/4 clauses over 3 "
          "variables (every order; plus literal sequences with repetition, plus 4 variables) through prove_tautology / "
          "start_resolution_algorithm / resolution_algorithm; each normal-form stage (to_conj_form, propag_neg, to_cnf, "
          "to_clauses) checked for shape, truth-table equivalence and the conclusions of both returned proofs; returned "
          "proofs replayed on a StatefulInterpreter and a stride serialised and run through the real checker. The stages are "
          "also driven directly: every And/Or tree of <=4/5 leaves (all-And/all-Or trees up to 6/7), every Or-tree with "
          "negation flags on any node, every clause of <=5/6 literals x resolvent through simplify_clause, every (copies, rest) "
          "through the duplicate collapse, fat clauses through the resolution algorithm."),
    note='Trusted: truth tables. Replays through the optimiser are limited to proofs under 2.5 kB (C02 covers the optimiser).',
    technique='bounded-exhaustive enumeration of formulas and clause orderings against a truth-table oracle',
    design='5/C09',
)
CHECKS['C10'] = dict(
    level='exploration',
    text=("The advertised schema of each of the 87 schema-shaped entry points is read from its live docstring; the "
          "letter-to-parameter correspondence is found by search at a generic point (a docstring matching no correspondence is "
          "a violation). Then every argument tuple from a pool of 6/9 patterns (binders, applications, pending substitution, "
          "notation, constrained metavariable) is run: conclusion equals the schema instance, the proof replays on an "
          "auditing interpreter using only prop1-3/MP/instantiate/loads of declared axioms and on a StatefulInterpreter, a "
          "stride is accepted by the real checker; plus every (producer, consumer, premise slot) composition whose shapes match."),
    note=("Entry points that are not schema-shaped (prover stages, resolution helpers, *_match*, *_move_to_front) are covered by "
          "C09 and listed in the evidence. Hand table for 5 entries without a formula docstring."),
    technique='bounded-exhaustive enumeration of entry points x argument tuples against schemas parsed from the live docstrings',
    design='5/C10',
)

CHECKS['C04'] = dict(
    level='model_checking',
    text=("Explicit-state BFS over sequences of interpreter calls on a real SerializingInterpreter (42 primitive events: "
          "pushes, constructors, rules, instantiate with every key order, pop/save/load, publish in each phase, phase "
          "changes; plus 12 whole-pattern macro events through Interpreter.pattern incl. notation), from the fresh "
          "interpreter and from a proof-phase state with axioms and claims. After every accepted call the bytes emitted so "
          "far run on the real Rust machine and on the reference machine; stack, memory and claim queue must be the same "
          "terms as the tracker's (notation expanded, symbols numbered by the serialiser's table)."),
    note=("Known findings (known_findings.json): the generator's missing well-formedness checks (non-positive mu, redundant "
          "substitution, constraint-violating / capturing instantiation) and use of an entry the tracker keeps after "
          "publishing it. Arguments of calls are the tracker's own stack entries; publish_claim only for declared claims."),
    technique='explicit-state BFS over interpreter call histories with the real machine replaying the emitted bytes after every step',
    design='5/C04',
)
CHECKS['C14'] = dict(
    level='model_checking',
    text=("Same exploration of interpreter call histories as C04; for every reached state whose bytes the real checker "
          "accepts, the bytes of all phases are fed through deserialize_instructions into a fresh SerializingInterpreter "
          "(must re-emit identical bytes and reach the same stack/memory/claims, symbols renumbered) and into a fresh "
          "PrettyPrintingInterpreter (same step listing as the original calls); every prefix cutting an operand and every "
          "opcode replaced by an unknown one must raise."),
    note='Trusted: instruction-boundary decoder in mc/c14.py written from the document.',
    technique='explicit-state BFS over interpreter call histories; round trip and fault enumeration on every state',
    design='5/C14',
)

CHECKS['C02'] = dict(
    level='model_checking',
    text=("Explicit-state search over proof expressions: level 0 = prop1-3, exists_quantifier, loads of 10 module axioms and "
          "10 library lemmas at pool arguments; each level applies modus_ponens (all pairs), instantiate and dynamic_inst "
          "(maps of 1-2 metavariables in every key order over a 12-pattern pool incl. notation, binders, pending "
          "substitutions, constrained metavariables) and exists_generalization. Every expression the toolkit accepts "
          "becomes a module serialised by the real ProofExp.serialize with optimisation off and on; the real checker's "
          "verify() and the reference machine must accept and discharge exactly the advertised claim. The shipped modules "
          "are regenerated and verified too; modules with 2-3/4 claims (repetitions included) are built with their proofs "
          "listed in every order."),
    note=("Known findings: instantiation producing a redundant pending substitution; instantiation violating a declared "
          "constraint. Level 2 expands one representative per distinct level-1 conclusion (capped)."),
    technique='explicit-state search over DSL expressions with the real serializer and the real checker as acceptance oracle',
    design='5/C02',
)

CHECKS['C03'] = dict(
    level='exploration',
    text=("Bounded-exhaustive over a module grammar: import graphs (single, chain, diamond, repeated import, wide) x axiom "
          "tuples from a 12-pattern pool (shared/distinct symbols, notation, binders, constrained metavariables) x claim "
          "modes x axiom sharing between modules, each serialised by the real ProofExp.serialize with both settings; the "
          "three files are decoded by the reference machine and its publish journal compared with the declaration under one "
          "injective symbol map: axioms exactly the import closure in order, claims proved in declaration order, same "
          "journal with optimisation on/off, checker accepts; every claim list of <=3/4 claims over a pool of four (repetitions, "
          "adjacent or not); modules re-serialised after a late add_axiom. Capacity cases (symbols, variable ids, memory slots at "
          "255/256/257+) must either encode unambiguously or be refused."),
    note='Trusted: journal decoding by mc/refmachine.py (bound to the checker by C05).',
    technique='bounded-exhaustive enumeration of module declarations; decoded publish journal compared with the declaration',
    design='5/C03',
)
CHECKS['C08'] = dict(
    level='model_checking',
    text=("Product exploration: proof expressions (DSL primitives, axiom loads, library lemmas at pool arguments, one level of "
          "modus_ponens / instantiate / dynamic_inst / exists_generalization in every key order, and degenerate shapes: empty "
          "map, repeated instantiation, one thunk used twice) x 15 interpreter stacks (Basic, Stateful, Counting, Serializing, "
          "PrettyPrinting, Memoizing and InstantiationOptimizer over them, two-deep stacks; analyser suggestions and "
          "aggressive memoisation). Per expression the outcomes over all stacks must be a singleton (all raise, or all return "
          "the advertised conclusion) and the checker's verdict on the bytes written under every serialising stack must agree."),
    note='Known finding: MemoizingInterpreter stacked over another transformer exhausts the 256 memory slots.',
    technique='exhaustive product of bounded expression set x interpreter stacks with outcome-agreement oracle',
    design='5/C08',
)

CHECKS['C19'] = dict(
    level='exploration',
    text=("Bounded-exhaustive: (a) every shipped notation (propositional, definedness, Kore, sorted/Kore quantifiers, forall, "
          "n-ary applications, cells) x all ordered pairs of argument tuples from a pool with pairwise distinct renderings, "
          "printed with the owning module's PrettyOptions: applications that expand to different patterns must render "
          "differently; (b) for shipped modules, the import-graph family and DSL expressions, both optimise settings: "
          "the step lines of .pretty-gamma/claim/proof correspond one-to-one, in order, kind and operands, to the "
          "instructions decoded from .ml-gamma/claim/proof written by the real ProofExp.serialize -- from two fresh module "
          "objects and from ONE object in either order."),
    note='Trusted: instruction decoder and listing parser in mc/c19.py.',
    technique='bounded-exhaustive enumeration of notation applications and of module files',
    design='5/C19',
)

CHECKS['C15'] = dict(
    level='exploration',
    text=("Bounded-exhaustive against an independent Appendix-B reference (mc/mmref.py, validated by verifying every shipped "
          "benchmark): every step number 1..10^6 (2*10^6 thorough) encoded by the reference and decoded by "
          "the converter (parse_database + MetamathConverter, public path) in two whitespace layouts; every letter string up to length 4/5 over the "
          "compressed alphabet incl. Z that the reference accepts; label lists of length 0-3 through parse_database in six "
          "layouts; targets with 0-3 mandatory variables with the floating hypotheses declared in every order, one "
          "subprocess per hash seed in a window selected by VERIF_SEED (observed set-iteration orders are listed); every sequence "
          "of <=3/4 lemmas from a pool of six in ONE database (nothing may carry over between lemmas); every placement of <=2 "
          "reuse marks in a valid proof (equal expressions marked twice, references to the latest or earliest mark) translated "
          "and accepted by the checker."),
    note='Hash seeds: 8 (quick) / 32 (thorough) per run; orders of the 2- and 3-element variable sets actually observed are in the evidence.',
    technique='bounded-exhaustive enumeration of numbers, letter strings, layouts and (declaration order x hash seed) configurations',
    design='5/C15',
)
CHECKS['C16'] = dict(
    level='model_checking',
    text=("Breadth-first search over proof trees: for each feature vector (order of floating hypotheses, declared notation, "
          "rules with essential hypotheses) ALL derivations up to height 2/3 over a term pool are generated, verified by the "
          "reference Metamath verifier, written in three compression layouts (no Z / every repeated sub-proof / first repeated "
          "sub-proof) and translated by the body of translate.main with both optimise settings; the reference machine's "
          "journal must show the images of the database's axioms and rules and the image of the target as the one claim "
          "proved, the real checker must accept, and all layouts must agree. Shipped benchmarks are translated and checked too. "
          "Plus every placement of <=2/3 reuse marks on five targets, and databases with 3..200 (700) extra constants whose "
          "proofs pass the one-, two- and three-letter number ranges; sequences of lemmas executed on one converter; histories of "
          "two databases in one process (a database, then its twin with pairs of labels exchanged)."),
    note=("Known finding: databases whose floating hypotheses are not declared in the order ph0, ph1, ph2 (positional "
          "instantiation of prop-1/prop-2 in exec_proof). Quick tier strides over derivations of all but the first feature vector."),
    technique='BFS over derivations of generated databases; translation validated by reference machine and real checker',
    design='5/C16',
)
CHECKS['C17'] = dict(
    level='exploration',
    text=("Bounded-exhaustive over a construction grammar of databases (order of floating hypotheses x declared notation x every "
          "subset of {plain lemma, lemma under $e, under $d, in a nested block, under a global $d, with a $d naming an unused "
          "variable, through a dummy variable, using another lemma with hypotheses, over a constant that has no constructor axiom "
          "and occurs only inside essential hypotheses} x goal variants), all proofs "
          "produced by the reference encoder and verified by the reference verifier: parse(print(db)) == db, printing "
          "idempotent, printed text read back by an independent tokenizer; the slicing pipeline as main() drives it must "
          "produce, for every lemma the goal needs, a slice that the reference verifier accepts (everything declared before "
          "use), with floating hypotheses in original order, carrying the original compressed proof and statement. "
          "All shipped benchmarks go through the print/parse part. Histories: every sequence of <=2/3 databases with colliding "
          "token sets parsed, printed and sliced in one fresh process must give, at every position, what the database gives alone."),
    note='Trusted: mc/mmref.py (verifier and tokenizer).',
    technique='bounded-exhaustive enumeration of generated databases against a reference Metamath verifier',
    design='5/C17',
)

CHECKS['C18'] = dict(
    level='exploration',
    text=("Exhaustive over a grid of configurations, one subprocess each: every target (shipped modules, import-graph "
          "modules, DSL expressions incl. re-ordered / partially applied notation as dynamic_inst plugs, theories whose axioms "
          "contain one another, translations of shipped and generated Metamath databases with 2+ variables) under every "
          "hash seed of a window selected by VERIF_SEED; every sequence of 2 (and 3) targets serialised in one process, so "
          "that each target is produced after every history; every target serialised three times from one module object (as "
          "translate.main does); every target serialised, grown by one declaration and serialised again; every target under two "
          "answers of the process clocks (a year-old process, readings an hour apart). All 12 files (binary and pretty, optimise off and on) must be byte-identical to the baseline "
          "(fresh process, PYTHONHASHSEED=0, empty history)."),
    note='Hash seeds: 8 (quick) / 32 (thorough) per run; targets the toolkit refuses (known findings of other properties) are dropped.',
    technique='exhaustive enumeration of (target, hash seed, clock answer, in-process history) configurations against a baseline',
    design='5/C18',
)
CHECKS['C20'] = dict(
    level='model_checking',
    text=("Explicit-state exploration of trace histories on real ExecutionProofExp objects over signatures built with the real "
          "LanguageSemantics builder (constants with cyclic rules; unary/binary symbols, a cell, a sort-parametric symbol, "
          "rules with variables incl. a repeated one): from every reached state every (rule, ground substitution) event is "
          "tried; a step is accepted iff it starts at the configuration reached, a refused step leaves claims/axioms/proofs "
          "unchanged, the claims are exactly the instantiated rewrites so far; every maximal history is serialised with both "
          "settings and accepted by reference machine and real checker with all claims discharged. Conversion from (stub) "
          "Kore: variable scoping per axiom (element and sort variables) and convert(rule).instantiate(convert(s)) == "
          "convert(s(rule)) for all ground s. Traces as users supply them: every event sequence of length <=2/3, chained or "
          "not, with the recorded configurations filled in four ways, through from_proof_hints and through "
          "LLVMRewriteTrace -> get_proof_hints -> from_proof_hints over the stub Kore definition; for every accepted truthful "
          "Kore trace each proof expression is run after the whole trace was converted and must conclude its own claim."),
    note='Assumption: mc/stubs/pyk (kore.syntax, kllvm) stands in for the absent pyk package. Trace length 4 (quick) / 5 (thorough).',
    technique='explicit-state BFS over rewrite-event histories of the real proof-module object; end-to-end acceptance by the real checker',
    design='5/C20',
)

NOT_YET = {
}


def main():
    props = [json.loads(l) for l in open(os.path.join(HERE, 'properties.jsonl'))]
    checks = []
    na = []
    for p in props:
        pid = p['id']
        if pid in CHECKS:
            c = CHECKS[pid]
            checks.append({
                'property_id': pid,
                'quick_cmd': f'./check {pid} --tier quick',
                'thorough_cmd': f'./check {pid} --tier thorough',
                'evidence_file': f'evidence/{pid}.json',
                'replay_cmd_template': f'./check {pid} --replay {{path}}',
                'engine': c.get('engine', 'mc'),
                'level_claimed': {'category': c['level'], 'text': c['text'], 'design_ref': c.get('design', '')},
                'level_note': c['note'],
                'technique': c['technique'],
            })
        else:
            na.append({'property_id': pid,
                       'reason': NOT_YET.get(pid, 'check not built yet in this tree; bounded exhaustive exploration applies (see DESIGN.md section 5) and is planned')})
    m = {
        'version': 1,
        'setup_cmd': './setup.sh',
        'hooks': {
            'guard': 'PI2_VERIF',
            'enable': 'no source hooks are needed: the Rust harness textually includes rust/src/lib.rs, Python seams are public methods; checks export PI2_VERIF=1 for uniformity',
            'baseline_off_cmd': BASELINE,
            'source_commits': [],
            'add_only': True,
        },
        'engines': [
            {'name': 'E1 rust harness', 'path': 'rust/harness_tail.rs', 'serves_properties': ['C01', 'C02', 'C04', 'C05', 'C06', 'C11'],
             'kind_free_text': 'textual inclusion of lib.rs; line protocol; real transition function + finite-model evaluator'},
            {'name': 'E2 reference machine', 'path': 'mc/refmachine.py', 'serves_properties': ['C02', 'C03', 'C04', 'C05', 'C14', 'C19'],
             'kind_free_text': 'three-valued reference implementation of docs/proof-language.md, bound to the code by C05'},
        ],
        'checks': checks,
        'not_applicable': na,
        'notes': 'All checks are bounded exhaustive explorations (model checking family); see DESIGN.md. Known findings: known_findings.json.',
    }
    with open(os.path.join(HERE, 'MANIFEST.json'), 'w') as f:
        json.dump(m, f, indent=1)
        f.write('\n')
    print('checks:', [c['property_id'] for c in checks], 'not_applicable:', len(na))


if __name__ == '__main__':
    sys.exit(main())
