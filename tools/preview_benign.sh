#!/bin/bash
# tools/preview.sh <seeded-name> <CHECK>...   run quick checks against a scratch worktree of /repo HEAD + seeded/<name>/patch.diff
n=$1; shift
wt=/tmp/preb_$n
git -C /repo worktree remove --force $wt 2>/dev/null
git -C /repo worktree add -q $wt HEAD || exit 2
if ! git -C $wt apply /verif/benign/$n/patch.diff; then echo "== $n: patch does not apply"; git -C /repo worktree remove --force $wt; exit 2; fi
for c in "$@"; do
  echo "== $n $c: $(PI2_REPO=$wt /verif/check $c 2>&1 | grep -v KNOWN | tail -1 | cut -c1-150)"
done
git -C /repo worktree remove --force $wt
