#!/bin/bash
# run every registered quick (or $1=thorough) check, print one summary line per check
cd "$(dirname "$0")/.."
TIER="${1:-quick}"
rc=0
for id in $(python3 -c "import json; print(' '.join(c['property_id'] for c in json.load(open('MANIFEST.json'))['checks']))"); do
  start=$(date +%s)
  out=$(./check $id --tier $TIER 2>&1); code=$?
  end=$(date +%s)
  echo "$id exit=$code $((end-start))s $(echo "$out" | grep -c '^VIOLATION') violations, $(echo "$out" | grep -c '^KNOWN-FINDING') known | $(echo "$out" | tail -1 | cut -c1-150)"
  [ $code -ne 0 ] && rc=1
done
exit $rc
