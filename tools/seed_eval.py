#!/usr/bin/env python3
"""Bookkeeping for seeded property-breaking changes (/verif/seeded/<name>/).

  seed_eval.py add <PROP> <mutant_dir> <name>     copy patch/demo/notes, confirm in a scratch worktree:
                                                  demo passes on HEAD, fails with the patch, pinned suite still passes
  seed_eval.py detect <name> [PROP ...]           apply the patch to a scratch worktree of /repo HEAD, run the quick checks on it (PI2_REPO), record result
"""
import json
import os
import re
import shutil
import subprocess
import sys
import time
import xml.etree.ElementTree as ET

VERIF = os.path.dirname(os.path.dirname(os.path.abspath(__file__)))
SEEDED = os.path.join(VERIF, 'seeded')
REPO = '/repo'


def sh(cmd, cwd=None, timeout=3600, env=None):
    e = dict(os.environ)
    if env:
        e.update(env)
    r = subprocess.run(cmd, shell=True, cwd=cwd, capture_output=True, text=True, timeout=timeout, env=e)
    return r.returncode, r.stdout + r.stderr


def run_demo(d, root):
    for fn, runner in (('demo.py', '/venv/bin/python'), ('demo.sh', 'bash')):
        p = os.path.join(d, fn)
        if os.path.exists(p):
            env = {'PYTHONPATH': os.path.join(root, 'generation', 'src'), 'RUSTUP_TOOLCHAIN': 'stable-x86_64-unknown-linux-gnu',
                   'PYTHONDONTWRITEBYTECODE': '1'}
            return sh(f'{runner} {p} {root}', cwd='/tmp', timeout=1800, env=env)
    return None, 'no demo'


def suite(root):
    base = json.load(open('/root/.vp/BASELINE.json'))
    xml = f'/tmp/junit_{os.getpid()}.xml'
    rc, out = sh(f'/venv/bin/python -m pytest -ra -q -p no:cacheprovider --timeout=900 --continue-on-collection-errors --junitxml={xml}',
                 cwd=root, timeout=3000, env={'PYTHONDONTWRITEBYTECODE': '1'})
    passed = set()
    try:
        for tc in ET.parse(xml).getroot().iter('testcase'):
            if not list(tc):
                passed.add(f"{tc.get('classname')}::{tc.get('name')}")
    except Exception as e:  # noqa: BLE001
        return {'error': str(e), 'tail': out[-500:]}
    finally:
        if os.path.exists(xml):
            os.unlink(xml)
    missing = [t for t in base['stable_pass'] if t not in passed]
    tail = [l for l in out.splitlines() if ' passed' in l or ' failed' in l][-1:]
    return {'stable_pass_missing': missing, 'n_passed': len(passed), 'summary': tail}


def add(prop, src, name):
    d = os.path.join(SEEDED, name)
    os.makedirs(d, exist_ok=True)
    for fn in os.listdir(src):
        if fn in ('patch.diff', 'demo.py', 'demo.sh', 'notes.md', 'demo_main.rs'):
            if os.path.abspath(src) != os.path.abspath(d):
                shutil.copy(os.path.join(src, fn), os.path.join(d, fn))
    wt = f'/tmp/vm_{name}'
    sh(f'git -C {REPO} worktree remove --force {wt}')
    rc, out = sh(f'git -C {REPO} worktree add -q {wt} HEAD')
    meta = {'property': prop, 'name': name, 'base_commit': sh(f'git -C {REPO} rev-parse HEAD')[1].strip()}
    try:
        rc0, out0 = run_demo(d, wt)
        meta['demo_on_unmodified_tree'] = {'exit': rc0, 'tail': out0[-300:]}
        rc, out = sh(f'git apply {os.path.join(d, "patch.diff")}', cwd=wt)
        meta['patch_applies'] = (rc == 0)
        if rc != 0:
            meta['apply_error'] = out[-500:]
        else:
            rc1, out1 = run_demo(d, wt)
            meta['demo_with_patch'] = {'exit': rc1, 'tail': out1[-600:]}
            meta['suite_with_patch'] = suite(wt)
        meta['confirmed'] = bool(meta.get('patch_applies') and rc0 == 0 and meta['demo_with_patch']['exit'] not in (0, None)
                                 and not meta['suite_with_patch'].get('stable_pass_missing', ['x'])
                                 and 'error' not in meta['suite_with_patch'])
    finally:
        sh(f'git -C {REPO} worktree remove --force {wt}')
        shutil.rmtree(wt, ignore_errors=True)
    notes = os.path.join(d, 'notes.md')
    meta['needs_to_manifest'] = 'see notes.md'
    meta['ran'] = ['demo on a fresh worktree of /repo HEAD (exit 0 expected)', 'git apply patch.diff; demo again (non-zero expected)',
                   'pinned pytest command with the patch applied: every stable_pass test of BASELINE.json must still pass']
    json.dump(meta, open(os.path.join(d, 'meta.json'), 'w'), indent=1)
    print(json.dumps({k: meta[k] for k in ('name', 'confirmed', 'patch_applies')}), meta.get('suite_with_patch', {}).get('summary'))
    return 0 if meta['confirmed'] else 1


def detect(name, props):
    """runs the quick checks against a scratch worktree of /repo HEAD with the patch applied (PI2_REPO points the
    checks at it), so that /repo itself -- and anything else running against it -- is never touched"""
    d = os.path.join(SEEDED, name)
    meta = json.load(open(os.path.join(d, 'meta.json')))
    props = props or [meta['property']]
    wt = f'/tmp/det_{name}'
    sh(f'git -C {REPO} worktree remove --force {wt}')
    sh(f'git -C {REPO} worktree add -q {wt} HEAD')
    rc, out = sh(f'git apply {os.path.join(d, "patch.diff")}', cwd=wt)
    res = meta.setdefault('detection', {})
    if rc != 0:
        print('patch does not apply to current /repo HEAD:', out[-300:])
        res['error'] = 'patch does not apply to current HEAD'
        json.dump(meta, open(os.path.join(d, 'meta.json'), 'w'), indent=1)
        sh(f'git -C {REPO} worktree remove --force {wt}')
        return 2
    res.pop('error', None)
    res['against_commit'] = sh(f'git -C {REPO} rev-parse --short HEAD')[1].strip()
    try:
        for p in props:
            t0 = time.time()
            rc, out = sh(f'./check {p} --tier quick', cwd=VERIF, timeout=3600, env={'PI2_REPO': wt})
            viol = [l for l in out.splitlines() if l.startswith('VIOLATION')]
            first = ''
            lines = out.splitlines()
            for i, l in enumerate(lines):
                if l.startswith('VIOLATION') and i + 1 < len(lines):
                    first = lines[i + 1].strip()[:400]
                    break
            res[p] = {'exit': rc, 'violation_lines': len(viol), 'first': first, 'wall_s': round(time.time() - t0, 1),
                      'detected': rc == 1 and bool(viol)}
            print(name, p, 'DETECTED' if res[p]['detected'] else 'missed', f'({res[p]["wall_s"]}s)', first[:160])
    finally:
        sh(f'git -C {REPO} worktree remove --force {wt}')
        shutil.rmtree(wt, ignore_errors=True)
        # evidence and replay files written by these runs describe the mutant, not the tree
        sh('git checkout -- evidence 2>/dev/null; rm -f replays/*', cwd=VERIF)
    json.dump(meta, open(os.path.join(d, 'meta.json'), 'w'), indent=1)
    return 0


if __name__ == '__main__':
    if sys.argv[1] == 'add':
        sys.exit(add(sys.argv[2], sys.argv[3], sys.argv[4]))
    if sys.argv[1] == 'detect':
        sys.exit(detect(sys.argv[2], sys.argv[3:]))
