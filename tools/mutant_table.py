#!/usr/bin/env python3
"""Writes /verif/MUTANTS.md from seeded/*/meta.json"""
import glob, json, os
HERE = os.path.dirname(os.path.dirname(os.path.abspath(__file__)))
rows = []
for f in sorted(glob.glob(os.path.join(HERE, 'seeded', '*', 'meta.json'))):
    m = json.load(open(f))
    det = m.get('detection', {})
    caught = [p for p, r in det.items() if isinstance(r, dict) and r.get('detected')]
    missed = [p for p, r in det.items() if isinstance(r, dict) and not r.get('detected')]
    first = ''
    for p in caught:
        first = det[p].get('first', '')[:110]
        break
    rows.append((m['name'], m['property'], 'yes' if m.get('confirmed') else 'NO', ', '.join(caught) or '-', ', '.join(missed) or '-', first.replace('|', '/')))
with open(os.path.join(HERE, 'MUTANTS.md'), 'w') as o:
    o.write('# Seeded property-breaking changes\n\n')
    o.write('Each directory under `seeded/` holds `patch.diff`, the demonstration, `notes.md` (what it needs to manifest) and `meta.json` '
            '(what was run to confirm it: demo passes on HEAD, fails with the patch, the pinned suite still passes; and which quick checks '
            'were run against it with `tools/seed_eval.py detect`). "caught by" / "not caught by" list the checks that were actually run against the patch.\n\n')
    o.write('| change | breaks | confirmed | caught by (quick tier) | run but silent | first reported case |\n|---|---|---|---|---|---|\n')
    for r in rows:
        o.write('| ' + ' | '.join(r) + ' |\n')
    o.write(f'\n{len(rows)} changes; {sum(1 for r in rows if r[3] != "-")} caught by at least one check.\n')
print(len(rows))
