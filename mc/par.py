"""Process fan-out: each worker is a fresh forked process that lazily owns one Rust harness."""
from __future__ import annotations

import multiprocessing as mp
import os

from . import common

_H = None


def harness() -> common.Harness:
    global _H
    if _H is None or _H.p.poll() is not None:
        _H = common.Harness()
    return _H


def _reset():
    global _H
    _H = None


def pmap(func, items, jobs: int | None = None, chunksize: int = 1):
    """ordered parallel map; func must be a module-level function. Falls back to serial for tiny inputs."""
    items = list(items)
    jobs = jobs or common.ncpu()
    if jobs <= 1 or len(items) <= 1:
        return [func(x) for x in items]
    ctx = mp.get_context('fork')
    with ctx.Pool(min(jobs, len(items)), initializer=_reset) as pool:
        return pool.map(func, items, chunksize=chunksize)


def chunks(seq, n):
    """split seq into at most n nearly equal contiguous chunks"""
    seq = list(seq)
    if not seq:
        return []
    n = max(1, min(n, len(seq)))
    k, r = divmod(len(seq), n)
    out = []
    i = 0
    for j in range(n):
        sz = k + (1 if j < r else 0)
        out.append(seq[i:i + sz])
        i += sz
    return out
