"""C14 -- binary round trip: deserialising a serialised proof replays it.

Same explicit-state exploration of interpreter call histories as C04 (all three phases, ESubst/SSubst,
constrained metavariables, Quantifier, Generalization, Publish in every phase). For every reached state the
bytes of each phase are fed through deserialize_instructions into a fresh SerializingInterpreter: it must
re-emit the same bytes and end in the same stack / memory / claims (symbols up to renumbering); into a fresh
PrettyPrintingInterpreter it must list the same steps as the original calls. Error side: every prefix that
cuts an operand and every opcode replaced by an unknown one must raise."""
from __future__ import annotations

import io
import json
import sys

from . import common, par
from . import refmachine as rm

PROP = 'C14'
# bytes that are no instruction, and the eight instructions of the language that no interpreter of the toolkit can replay
UNKNOWN = (0, 1, 31, 255, 136, 0x10, 0x11, 0x12, 0x13, 0x14, 0x17, 0x18, 0x19)


def boundaries(buf: bytes):
    """instruction start offsets (decoder written from docs/proof-language.md, not from the code under test)"""
    out = []
    i = 0
    n = len(buf)
    while i < n:
        out.append(i)
        op = buf[i]
        i += 1
        if op in (2, 3, 4, 7, 8, 10, 11, 22, 24, 29, 137):
            i += 1
        elif op == 9:
            i += 1
            for _ in range(5):
                if i >= n:
                    return out, False
                i += 1 + buf[i]
        elif op == 26:
            if i >= n:
                return out, False
            i += 1 + buf[i]
    return out, i == n


def fresh_pair(kind='ser', hist=()):
    from . import interp_explore as ix
    declared = ix.CLAIM_SETS[hist[0].split(':', 1)[1]] if hist and hist[0].startswith('@claims:') else ix.DECLARED_CLAIMS
    from proof_generation.claim import Claim
    from proof_generation.interpreter import ExecutionPhase
    if kind == 'ser':
        bufs = [ix.Buf(), ix.Buf(), ix.Buf()]
        it = ix.SerializingInterpreter(ExecutionPhase.Gamma, bufs[0], [Claim(c) for c in declared], bufs[1], bufs[2])
    else:
        from proof_generation.pretty_printing_interpreter import PrettyPrintingInterpreter

        class SBuf(io.StringIO):
            def close(self):
                pass
        bufs = [SBuf(), SBuf(), SBuf()]
        it = PrettyPrintingInterpreter(ExecutionPhase.Gamma, bufs[0], [Claim(c) for c in declared], bufs[1], bufs[2])
    return it, bufs


def deserialize_all(it, g, c, p, ph):
    from proof_generation.deserialize import deserialize_instructions
    deserialize_instructions(g, it)
    if ph >= 1:
        it.into_claim_phase()
        deserialize_instructions(c, it)
    if ph >= 2:
        it.into_proof_phase()
        deserialize_instructions(p, it)


def steps_of(text: str):
    """instruction lines of a pretty listing, symbols renamed by first occurrence"""
    names: dict[str, int] = {}
    out = []
    for l in text.splitlines():
        if l.startswith('\t') or not l.strip():
            continue
        if l.startswith('Symbol '):
            nm = l[7:]
            names.setdefault(nm, len(names))
            l = f'Symbol #{names[nm]}'
        if l.startswith('Load '):
            l = 'Load ' + l.split('=')[-1]
        out.append(l)
    return out


def roundtrip(sim, hist):
    """returns list of (signature, description)"""
    from . import interp_explore as ix
    from proof_generation.deserialize import deserialize_instructions
    from proof_generation.interpreter import ExecutionPhase
    viols = []
    g, c, p = sim.bytes3()
    ph = sim.phase_no()
    last = hist[-1].split()[0] if hist else ''
    it2, bufs2 = fresh_pair('ser', hist)
    try:
        deserialize_all(it2, g, c, p, ph)
    except Exception as ex:  # noqa: BLE001
        viols.append(({'kind': 'deserialize_raises', 'event': last, 'exc': common.exc_family(ex)},
                      f'deserialising the bytes of {list(hist)} raised {type(ex).__name__}: {str(ex)[:120]}'))
        return viols
    got = tuple(b.getvalue() for b in bufs2)
    if got != (g, c, p):
        viols.append(({'kind': 'bytes_differ', 'event': last},
                      f'bytes of {list(hist)}: {g.hex()}|{c.hex()}|{p.hex()} re-emitted as {got[0].hex()}|{got[1].hex()}|{got[2].hex()}'))
        return viols
    s2 = ix.Sim.__new__(ix.Sim)
    s2.it, s2.ghosts, s2.bufs, s2.published_claims = it2, [], bufs2, 0
    v1 = ix.tracker_view(sim)
    v2 = ix.tracker_view(s2)
    # the original tracker keeps entries consumed by a publish; so does the replayed one -- compare the raw stacks
    s1 = ix.Sim.__new__(ix.Sim)
    s1.it, s1.ghosts, s1.bufs, s1.published_claims = sim.it, [], sim.bufs, 0
    v1 = ix.tracker_view(s1)
    if v1[:3] != v2[:3]:
        viols.append(({'kind': 'state_differs', 'event': last},
                      f'after {list(hist)}: original stack {[str(x) for x in sim.it.stack]} memory {[str(x) for x in sim.it.memory]} '
                      f'claims {len(sim.it.claims)}; replayed stack {[str(x) for x in it2.stack]} memory {[str(x) for x in it2.memory]} claims {len(it2.claims)}'))
    return viols


def pretty_compare(hist):
    """listing of the original calls vs listing of the deserialised bytes"""
    from . import interp_explore as ix
    sim = ix.replay_history(hist)
    g, c, p = sim.bytes3()
    ph = sim.phase_no()
    # original calls on a pretty printer
    it_p, bufs_p = fresh_pair('pretty', hist)
    sp = ix.Sim.__new__(ix.Sim)
    sp.it, sp.ghosts, sp.bufs, sp.published_claims = it_p, [], bufs_p, 0
    try:
        for name in hist:
            if not name.startswith('@claims:'):
                ix.EVENTS[name](sp)
    except Exception as ex:  # noqa: BLE001
        return [({'kind': 'pretty_original_raises', 'exc': common.exc_family(ex)}, f'pretty printing the calls {list(hist)} raised {type(ex).__name__}: {str(ex)[:100]}')]
    it_d, bufs_d = fresh_pair('pretty', hist)
    try:
        deserialize_all(it_d, g, c, p, ph)
    except Exception as ex:  # noqa: BLE001
        return [({'kind': 'pretty_deserialize_raises', 'exc': common.exc_family(ex)}, f'deserialising {list(hist)} into the pretty printer raised {type(ex).__name__}: {str(ex)[:100]}')]
    for k in range(3):
        a, b = steps_of(bufs_p[k].getvalue()), steps_of(bufs_d[k].getvalue())
        if a != b:
            return [({'kind': 'listing_differs', 'phase': k}, f'{list(hist)}: original steps {a} deserialised steps {b}')]
    return []


def error_side(sim, hist):
    from proof_generation.deserialize import deserialize_instructions
    viols = []
    n = 0
    g, c, p = sim.bytes3()
    ph = sim.phase_no()
    bufs = [g, c, p]
    cur = bufs[ph]
    if not cur:
        return viols, 0
    bd, ok = boundaries(cur)
    if not ok:
        return viols, 0

    def run(mut):
        it2, _ = fresh_pair('ser', hist)
        b = list(bufs)
        b[ph] = mut
        deserialize_all(it2, b[0], b[1], b[2], ph)

    bset = set(bd)
    for cut in range(1, len(cur)):
        if cut in bset:
            continue
        n += 1
        try:
            run(cur[:cut])
            viols.append(({'kind': 'truncation_accepted', 'opcode': cur[max(x for x in bd if x < cut)]},
                          f'{cur.hex()} cut after {cut} bytes (inside an instruction) deserialises without error'))
        except Exception:  # noqa: BLE001
            pass
    for off in bd:
        for u in UNKNOWN:
            n += 1
            try:
                run(cur[:off] + bytes([u]) + cur[off + 1:])
                viols.append(({'kind': 'unknown_opcode_accepted', 'opcode': u},
                              f'{cur.hex()} with byte {off} replaced by unknown opcode {u} deserialises without error'))
            except Exception:  # noqa: BLE001
                pass
    return viols, n


def expand_chunk(args):
    histories, event_names, caps, leaf = args
    from . import interp_explore as ix
    max_stack, max_mem, max_size = caps
    stats = {'transitions': 0, 'accepted': 0, 'raised': 0, 'capped': 0, 'roundtrips': 0, 'error_inputs': 0, 'pretty': 0,
             'skipped_not_machine_valid': 0}
    h = par.harness()
    children, viols = [], []
    for hist in histories:
        sim = ix.replay_history(hist)
        snap = sim.snapshot()
        for en in event_names:
            stats['transitions'] += 1
            if ix.touches_ghost(sim, en):
                continue
            try:
                ix.EVENTS[en](sim)
            except Exception:  # noqa: BLE001
                stats['raised'] += 1
                sim.restore(snap)
                continue
            stats['accepted'] += 1
            child = hist + (en,)
            # only histories whose bytes the real machine accepts are "serialised proofs" (the generator's missing
            # well-formedness checks are C04's known findings, not a deserialiser matter)
            g, c, p = sim.bytes3()
            if h.run(g, c, p, sim.phase_no()) is None:
                stats['skipped_not_machine_valid'] += 1
                sim.restore(snap)
                continue
            vs = roundtrip(sim, child)
            stats['roundtrips'] += 1
            ev, n = error_side(sim, child)
            stats['error_inputs'] += n
            vs += ev
            if leaf or len(child) <= 2:
                vs += pretty_compare(child)
                stats['pretty'] += 1
            for sig, what in vs:
                viols.append((sig, list(child), what))
            it = sim.it
            try:
                cn = ix.canon(sim)
                big = len(it.stack) > max_stack or len(it.memory) > max_mem
            except Exception:  # noqa: BLE001
                cn, big = None, True
            if big:
                stats['capped'] += 1
            else:
                children.append((child, cn))
            sim.restore(snap)
    return children, stats, viols


def run_bfs(chk, event_names, depth, caps, agg, label, seeds=((),)):
    seen = set()
    frontier = [tuple(s) for s in seeds]
    levels = []
    for lvl in range(1, depth + 1):
        work = [(ch, event_names, caps, lvl == depth) for ch in par.chunks(frontier, common.ncpu() * 4)]
        nxt = []
        for children, stats, viols in par.pmap(expand_chunk, work):
            for k, v in stats.items():
                agg[k] = agg.get(k, 0) + v
            for sig, hist, what in viols:
                chk.violation(sig, {'history': hist, 'signature': sig}, what)
            for child, cn in children:
                if cn not in seen:
                    seen.add(cn)
                    nxt.append(child)
        levels.append(len(nxt))
        frontier = nxt
        if not frontier:
            break
    agg['states'] = agg.get('states', 0) + len(seen) + 1
    agg.setdefault('levels', []).append({'alphabet': label, 'new_states_per_depth': levels})
    return frontier


def replay(path: str) -> int:
    v = json.loads(open(path).read())
    hist = tuple(v['replay']['history'])
    print('history:', list(hist))
    print(v.get('what'))
    from . import interp_explore as ix
    sim = ix.replay_history(hist)
    vs = roundtrip(sim, hist) + error_side(sim, hist)[0] + pretty_compare(hist)
    for sig, what in vs:
        print('still failing:', sig, what[:300])
    return 1 if vs else 0


def main(argv=None) -> int:
    argv = argv or []
    if argv and argv[0] == '--replay':
        return replay(argv[1])
    chk = common.Check(PROP, 'model_checking')
    thorough = chk.tier == 'thorough'
    common.build_harness()
    from . import interp_explore as ix
    agg: dict = {}
    raw = [n for n, _ in ix.RAW_EVENTS]
    macro = [n for n, _ in ix.MACRO_EVENTS]
    caps = (5, 3, 14)
    f1 = run_bfs(chk, raw, 5 if thorough else 4, caps, agg, 'raw')
    rules = [n for n in raw if n.split()[0] in ('prop1', 'prop2', 'prop3', 'exists_quantifier', 'modus_ponens', 'generalization',
                                                'instantiate', 'pop', 'save', 'load', 'publish', 'next')]
    f2 = run_bfs(chk, macro + rules, 4 if thorough else 3, caps, agg, 'macro')
    seed = ('pattern (phi0 -> phi0)', 'publish', 'pattern (1 -> a)', 'publish', 'next phase',
            'pattern (∃ x0 . x0)', 'publish', 'pattern (phi0 -> phi0)', 'publish', 'next phase')
    f3 = run_bfs(chk, raw, 4 if thorough else 3, (5, 4, 14), agg, 'proof-phase-seed/raw', seeds=(seed,))
    # a theory-less module whose single claim is provable in one step and is not an axiom: after its proof is published the
    # memories must still agree (then save and load something)
    one_claim = ('@claims:prop1', 'next phase', 'metavar 0', 'metavar 1', 'metavar 0', 'implies', 'implies', 'publish', 'next phase')
    run_bfs(chk, ['prop1', 'prop2', 'publish', 'save', 'load 0', 'load 1', 'pop'], 5 if thorough else 4, (5, 4, 14), agg,
            'one-provable-claim', seeds=(one_claim,))
    # the same term in memory twice with different KINDS: saved as a pattern and published as an axiom (what a memoising front
    # end does with an axiom that is also a frequent sub-pattern); both are loaded
    both_kinds = ('pattern (phi0 -> phi0)', 'save', 'publish')
    run_bfs(chk, ['load 0', 'load 1', 'pop', 'save', 'next phase'], 4 if thorough else 3, (5, 4, 14), agg,
            'pattern-and-axiom-in-memory', seeds=(both_kinds,))
    # two saved terms that PRINT alike (constraints are not printed) and are loaded one after the other: labels passed to
    # save/load are built from the printed form, as the toolkit's own callers do
    twins = ('metavar 0', 'save', 'pop', 'metavar 0 e_fresh x0', 'save', 'pop')
    run_bfs(chk, ['load 0', 'load 1', 'pop', 'implies', 'save', 'metavar 0', 'metavar 0 e_fresh x0'], 4 if thorough else 3, (5, 4, 14), agg,
            'print-twins-in-memory', seeds=(twins,))
    chk.set('states', agg.get('states', 0))
    chk.set('transitions', agg.get('transitions', 0))
    chk.set('traces_validated_against_impl', agg.get('roundtrips', 0))
    chk.set('exhaustive', True)
    chk.set('detail', agg)
    for fr in (f1, f2, f3):
        if fr:
            chk.sample({'history': list(fr[len(fr) // 2])})
    chk.assume('only histories whose emitted bytes the real checker accepts are round-tripped')
    chk.assume('instruction boundaries for the error side come from a decoder written from the document (mc/c14.py boundaries)')
    return chk.finish()


if __name__ == '__main__':
    sys.exit(main(sys.argv[1:]))
