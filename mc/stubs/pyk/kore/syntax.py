"""E8 -- stand-in for pyk.kore.syntax (the pinned environment's `pyk` is an unrelated package).
Frozen dataclasses with the constructor / match shapes that proof_generation.k.* uses. A test double for a
third-party library, used only by C20 (put first on sys.path inside its processes)."""
from __future__ import annotations

from dataclasses import dataclass, field


class Sort:
    pass


@dataclass(frozen=True)
class SortVar(Sort):
    name: str


@dataclass(frozen=True)
class SortApp(Sort):
    name: str
    sorts: tuple = ()


class Pattern:
    pass


@dataclass(frozen=True)
class String(Pattern):
    value: str


@dataclass(frozen=True)
class EVar(Pattern):
    name: str
    sort: Sort


@dataclass(frozen=True)
class SVar(Pattern):
    name: str
    sort: Sort


@dataclass(frozen=True)
class App(Pattern):
    symbol: str
    sorts: tuple = ()
    args: tuple = ()


@dataclass(frozen=True)
class Top(Pattern):
    sort: Sort


@dataclass(frozen=True)
class Bottom(Pattern):
    sort: Sort


@dataclass(frozen=True)
class Not(Pattern):
    sort: Sort
    pattern: Pattern


@dataclass(frozen=True)
class Next(Pattern):
    sort: Sort
    pattern: Pattern


@dataclass(frozen=True)
class And(Pattern):
    sort: Sort
    ops: tuple = ()


@dataclass(frozen=True)
class Or(Pattern):
    sort: Sort
    ops: tuple = ()


@dataclass(frozen=True)
class Implies(Pattern):
    sort: Sort
    left: Pattern
    right: Pattern


@dataclass(frozen=True)
class Iff(Pattern):
    sort: Sort
    left: Pattern
    right: Pattern


@dataclass(frozen=True)
class Rewrites(Pattern):
    sort: Sort
    left: Pattern
    right: Pattern


@dataclass(frozen=True)
class Exists(Pattern):
    sort: Sort
    var: EVar
    pattern: Pattern


@dataclass(frozen=True)
class Forall(Pattern):
    sort: Sort
    var: EVar
    pattern: Pattern


@dataclass(frozen=True)
class Mu(Pattern):
    var: SVar
    pattern: Pattern


@dataclass(frozen=True)
class Nu(Pattern):
    var: SVar
    pattern: Pattern


@dataclass(frozen=True)
class Ceil(Pattern):
    op_sort: Sort
    sort: Sort
    pattern: Pattern


@dataclass(frozen=True)
class Floor(Pattern):
    op_sort: Sort
    sort: Sort
    pattern: Pattern


@dataclass(frozen=True)
class Equals(Pattern):
    op_sort: Sort
    sort: Sort
    left: Pattern
    right: Pattern


@dataclass(frozen=True)
class In(Pattern):
    op_sort: Sort
    sort: Sort
    left: Pattern
    right: Pattern


@dataclass(frozen=True)
class DV(Pattern):
    sort: Sort
    value: String


class Sentence:
    pass


@dataclass(frozen=True)
class Import(Sentence):
    module_name: str
    attrs: tuple = ()


@dataclass(frozen=True)
class SortDecl(Sentence):
    name: str
    vars: tuple = ()
    attrs: tuple = ()
    hooked: bool = False


@dataclass(frozen=True)
class Symbol:
    name: str
    vars: tuple = ()


@dataclass(frozen=True)
class SymbolDecl(Sentence):
    symbol: Symbol
    param_sorts: tuple
    sort: Sort
    attrs: tuple = ()
    hooked: bool = False


@dataclass(frozen=True)
class Axiom(Sentence):
    vars: tuple
    pattern: Pattern
    attrs: tuple = ()


@dataclass(frozen=True)
class Module:
    name: str
    sentences: tuple = ()
    attrs: tuple = ()


@dataclass(frozen=True)
class Definition:
    modules: tuple = ()
    attrs: tuple = ()
