"""pyk.kllvm.ast stand-in: the native Kore AST is never constructed by the checks."""


class Pattern:
    @staticmethod
    def deserialize(data, strip_raw_term=True):  # noqa: ANN001, ANN205
        raise NotImplementedError('binary Kore terms are outside the stand-in')
