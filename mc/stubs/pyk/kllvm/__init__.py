"""Stand-in for pyk.kllvm (absent from the pinned environment): only what importing
proof_generation.llvm_proof_hint needs. Parsing binary LLVM hint files is outside the checks."""
