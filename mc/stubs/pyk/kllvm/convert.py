"""pyk.kllvm.convert stand-in"""


def llvm_to_pattern(pattern):  # noqa: ANN001, ANN201
    raise NotImplementedError('binary Kore terms are outside the stand-in')
