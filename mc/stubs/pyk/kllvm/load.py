"""pyk.kllvm.load: importing it loads the native bindings in the real library; nothing to do here."""
