"""Shared plumbing for the /verif checks: paths, evidence files, known findings, replay files,
the Rust harness builder/client (E1)."""
from __future__ import annotations

import hashlib
import json
import os
import subprocess
import sys
import time
from pathlib import Path

VERIF = Path(__file__).resolve().parent.parent
REPO = Path(os.environ.get('PI2_REPO', '/repo'))
BUILD = VERIF / 'build'
EVIDENCE = VERIF / 'evidence'
REPLAYS = VERIF / 'replays'
FINDINGS_FILE = VERIF / 'known_findings.json'
PYSRC = REPO / 'generation' / 'src'

LEVEL = {  # evidence level per property (kept in sync with MANIFEST.json)
}


def tier() -> str:
    t = os.environ.get('VERIF_TIER', 'quick')
    return t if t in ('quick', 'thorough') else 'quick'


def seed() -> int:
    try:
        return int(os.environ.get('VERIF_SEED', '0'))
    except ValueError:
        return 0


def ncpu() -> int:
    try:
        n = int(os.environ.get('VERIF_JOBS', '0'))
        if n > 0:
            return n
    except ValueError:
        pass
    return max(1, min(16, os.cpu_count() or 1))


# ------------------------------------------------------------------------------------------------
# Known findings
# ------------------------------------------------------------------------------------------------


class Findings:
    """Read-only view of /verif/known_findings.json. Entries with status "known" whose `signature`
    dict is a subset of a violation's signature absorb that violation; "fixed" entries absorb nothing."""

    def __init__(self, prop: str):
        self.prop = prop
        self.entries = []
        if FINDINGS_FILE.exists():
            data = json.loads(FINDINGS_FILE.read_text())
            for e in data.get('findings', []):
                if e.get('property') == prop and e.get('status') == 'known':
                    self.entries.append(e)
        self.absorbed: dict[int, int] = {}

    def match(self, signature: dict) -> dict | None:
        for i, e in enumerate(self.entries):
            sig = e.get('signature', {})
            if all(signature.get(k) == v for k, v in sig.items()):
                self.absorbed[i] = self.absorbed.get(i, 0) + 1
                return e
        return None


# ------------------------------------------------------------------------------------------------
# Check context: evidence, violations, exit status
# ------------------------------------------------------------------------------------------------


class Check:
    def __init__(self, prop: str, level: str):
        self.prop = prop
        self.level = level
        self.tier = tier()
        self.seed = seed()
        self.t0 = time.time()
        self.cov: dict = {'samples': []}
        self.assumptions: list[str] = []
        self.violations: list[dict] = []
        self.known_hits: dict[str, int] = {}
        self.findings = Findings(prop)
        self.notes: list[str] = []
        self._nontrivial: set = set()
        self._max_reported = 5

    # counters -----------------------------------------------------------------
    def add(self, key: str, n: int = 1) -> None:
        self.cov[key] = self.cov.get(key, 0) + n

    def set(self, key: str, value) -> None:
        self.cov[key] = value

    def sample(self, s, limit: int = 8) -> None:
        if len(self.cov['samples']) < limit:
            self.cov['samples'].append(s)

    def nontrivial(self, key) -> None:
        """record a distinct non-trivial case (by hashable key)"""
        if not isinstance(key, (str, bytes, int, tuple)):
            key = repr(key)
        self._nontrivial.add(hash(key) if not isinstance(key, int) else key)

    def assume(self, s: str) -> None:
        if s not in self.assumptions:
            self.assumptions.append(s)

    def note(self, s: str) -> None:
        self.notes.append(s)

    # violations ---------------------------------------------------------------
    def violation(self, signature: dict, replay: dict, what: str = '') -> bool:
        """Report a violation. Returns True if it is absorbed by a known finding."""
        e = self.findings.match(signature)
        if e is not None:
            k = e.get('what', json.dumps(e.get('signature')))
            self.known_hits[k] = self.known_hits.get(k, 0) + 1
            return True
        rec = {'property': self.prop, 'signature': signature, 'what': what, 'replay': replay}
        self.violations.append(rec)
        return False

    # finish -------------------------------------------------------------------
    def finish(self) -> int:
        wall = time.time() - self.t0
        cov = dict(self.cov)
        if self._nontrivial and 'distinct_nontrivial' not in cov:
            cov['distinct_nontrivial'] = len(self._nontrivial)
        if self.notes:
            cov['notes'] = self.notes[:50]
        if self.known_hits:
            cov['known_findings_absorbed'] = self.known_hits
        ev = {
            'property_id': self.prop,
            'tier': self.tier,
            'seed': self.seed,
            'level': self.level,
            'coverage': cov,
            'assumptions': self.assumptions,
            'wall_s': round(wall, 3),
            'violations': len(self.violations),
        }
        EVIDENCE.mkdir(exist_ok=True)
        (EVIDENCE / f'{self.prop}.json').write_text(json.dumps(ev, indent=1, sort_keys=True, default=str) + '\n')
        for k, n in self.known_hits.items():
            print(f'KNOWN-FINDING: property={self.prop} {k} (cases absorbed: {n})')
        if self.violations:
            REPLAYS.mkdir(exist_ok=True)
            seen = set()
            for v in self.violations:
                blob = json.dumps(v, sort_keys=True, default=str)
                dig = hashlib.sha256(json.dumps(v['signature'], sort_keys=True, default=str).encode()).hexdigest()[:12]
                if dig in seen:
                    continue
                seen.add(dig)
                path = REPLAYS / f'{self.prop}-{dig}.json'
                path.write_text(blob + '\n')
                if len(seen) <= self._max_reported:
                    print(f'VIOLATION property={self.prop} replay={path}')
                    if v.get('what'):
                        print(f'  {v["what"]}')
            if len(seen) > self._max_reported:
                print(f'  ... {len(seen) - self._max_reported} more distinct violation signatures (replay files written)')
            print(f'{self.prop}: FAIL {len(self.violations)} violating cases, {len(seen)} distinct signatures, {wall:.1f}s')
            return 1
        print(f'{self.prop}: ok tier={self.tier} wall={wall:.1f}s ' + ' '.join(
            f'{k}={v}' for k, v in cov.items() if isinstance(v, (int, bool)) and not isinstance(v, dict)))
        return 0


# ------------------------------------------------------------------------------------------------
# E1: Rust harness
# ------------------------------------------------------------------------------------------------

RUST_ENV = dict(os.environ, RUSTUP_TOOLCHAIN='stable-x86_64-unknown-linux-gnu')


def build_harness(force: bool = False) -> Path:
    """Concatenate /repo/rust/src/lib.rs (as text) with the harness tail and compile it.
    Rebuilt whenever lib.rs or the tail changed (content hash)."""
    BUILD.mkdir(exist_ok=True)
    lib = (REPO / 'rust' / 'src' / 'lib.rs').read_text()
    tail = (VERIF / 'rust' / 'harness_tail.rs').read_text()
    dig = hashlib.sha256((lib + '\0' + tail).encode()).hexdigest()[:16]
    exe = BUILD / f'harness-{dig}'
    if exe.exists() and not force:
        return exe
    src_lines = []
    for ln in lib.splitlines():
        s = ln.strip()
        if s == '#![no_std]':
            src_lines.append('// (verif) #![no_std]')
        elif s == '#![deny(warnings)]':
            src_lines.append('#![allow(warnings)]')
        else:
            src_lines.append(ln)
    src = '\n'.join(src_lines) + '\n' + tail
    # build in a private directory (concurrent checks, possibly against different trees, share BUILD) and publish atomically
    import shutil
    import tempfile
    import time as _time
    work = Path(tempfile.mkdtemp(prefix=f'tmp-{dig}-', dir=str(BUILD)))
    try:
        srcfile = work / 'harness.rs'
        srcfile.write_text(src)
        tmpexe = work / 'harness'
        cmd = ['rustc', '--edition', '2021', '-O', '-C', 'debuginfo=0', '--crate-name', 'vharness', '--crate-type', 'bin',
               '-o', str(tmpexe), str(srcfile)]
        r = subprocess.run(cmd, cwd=str(work), env=RUST_ENV, capture_output=True, text=True)
        if r.returncode != 0:
            sys.stderr.write(r.stderr[-4000:])
            raise RuntimeError('harness build failed')
        os.replace(tmpexe, exe)
    finally:
        shutil.rmtree(work, ignore_errors=True)
    # drop builds for other versions of lib.rs, but only old ones: another check may be using a different tree right now
    now = _time.time()
    for f in BUILD.glob('harness-*'):
        if dig not in f.name:
            try:
                if now - f.stat().st_mtime > 6 * 3600:
                    f.unlink()
            except OSError:
                pass
    for d in BUILD.glob('tmp-*'):
        try:
            if now - d.stat().st_mtime > 6 * 3600:
                shutil.rmtree(d, ignore_errors=True)
        except OSError:
            pass
    return exe


def exc_family(ex: BaseException) -> str:
    """name of the first built-in class in the exception's MRO: signatures stay the same when a maintainer refines a
    refusal into a subclass (class EncodingError(ValueError)) -- the family, not the exact class, identifies a finding"""
    for c in type(ex).__mro__:
        if c.__module__ == 'builtins':
            return c.__name__
    return type(ex).__name__


def hx(b: bytes) -> str:
    return b.hex() if b else '-'


class Harness:
    """Line-protocol client for the harness process (see DESIGN Appendix B)."""

    def __init__(self, exe: Path | None = None):
        self.exe = exe or build_harness()
        self.p = subprocess.Popen([str(self.exe)], stdin=subprocess.PIPE, stdout=subprocess.PIPE, bufsize=1 << 20)

    def ask_many(self, lines: list[str]) -> list[str]:
        """Send requests in chunks small enough (< pipe capacity) that our write can never block while
        the harness is blocked writing its answers; then read exactly as many answers."""
        out: list[str] = []
        i = 0
        n = len(lines)
        LIMIT = 40000
        while i < n:
            j = i
            sz = 0
            while j < n and (j == i or sz + len(lines[j]) + 1 <= LIMIT):
                sz += len(lines[j]) + 1
                j += 1
            data = ('\n'.join(lines[i:j]) + '\n').encode()
            if len(data) > 60000:
                # a single over-long request: feed it from a thread so reading can proceed
                import threading
                th = threading.Thread(target=self._write, args=(data,))
                th.start()
            else:
                th = None
                self._write(data)
            for _ in range(j - i):
                ln = self.p.stdout.readline()
                if not ln:
                    raise RuntimeError('harness died')
                out.append(ln.decode().rstrip('\n'))
            if th is not None:
                th.join()
            i = j
        return out

    def _write(self, data: bytes) -> None:
        self.p.stdin.write(data)
        self.p.stdin.flush()

    def ask(self, line: str) -> str:
        return self.ask_many([line])[0]

    def verify(self, g: bytes, c: bytes, p: bytes) -> bool:
        return self.ask(f'V {hx(g)} {hx(c)} {hx(p)}') == 'ACCEPT'

    def run(self, g: bytes, c: bytes, p: bytes, upto: int = 2) -> str | None:
        a = self.ask(f'R {upto} {hx(g)} {hx(c)} {hx(p)}')
        return a[3:] if a.startswith('OK ') else None

    def set_alphabet(self, instrs: list[bytes]) -> None:
        a = self.ask('A ' + ','.join(hx(i) for i in instrs))
        assert a.startswith('OK'), a

    def close(self) -> None:
        try:
            self.p.stdin.close()
            self.p.wait(timeout=5)
        except Exception:
            self.p.kill()

    def __del__(self):
        try:
            self.close()
        except Exception:
            pass


def setup_repo_path() -> None:
    """Make the repo's Python package importable (it is not installed in /venv)."""
    p = str(PYSRC)
    if p not in sys.path:
        sys.path.insert(0, p)
