"""C20 -- K execution traces become chained, checkable rewrite proofs.

Signatures are built through the real LanguageSemantics builder API and, for conversion, through
from_kore_definition on stub Kore terms (mc/stubs/pyk/kore/syntax.py stands in for the absent pyk.kore).
Explicit-state exploration of trace histories: a state is the history of rewrite events fed to a real
ExecutionProofExp; from every state every (rule, substitution) event of the alphabet is tried -- a step that starts
at the configuration reached must be accepted, any other step must raise and leave claims/axioms/proofs unchanged.
Invariant after every accepted step: the claims are exactly the instantiated rewrites so far, in order, chained.
Every maximal accepted history is serialised (both settings) and must be accepted by the reference machine and the
real checker with all claims discharged. Conversion: equal Kore variables map to equal metavariables and distinct
to distinct; convert(rule).instantiate(convert_substitutions(s)) == convert(s(rule))."""
from __future__ import annotations

import itertools
import json
import os
import sys

from . import common

STUBS = str(common.VERIF / 'mc' / 'stubs')
if STUBS not in sys.path:
    sys.path.insert(0, STUBS)

from . import par, pyrun  # noqa: E402
from . import refmachine as rm  # noqa: E402

PROP = 'C20'


# ------------------------------------------------------------------------------------------------
# signatures (real builder API)
# ------------------------------------------------------------------------------------------------

def sem_constants():
    from . import bridge  # noqa: F401
    from proof_generation.k.kore_convertion.language_semantics import LanguageSemantics
    from proof_generation.proofs.kore import kore_rewrites
    semantics = LanguageSemantics()
    with semantics as sem:
        with sem.module('consts') as mod:
            s = mod.sort('S')
            a = mod.symbol('a', s, is_functional=True, is_ctor=True)
            b = mod.symbol('b', s, is_functional=True, is_ctor=True)
            c = mod.symbol('c', s, is_functional=True, is_ctor=True)
            r = [mod.rewrite_rule(kore_rewrites(s.aml_symbol, a.app(), b.app())),
                 mod.rewrite_rule(kore_rewrites(s.aml_symbol, b.app(), c.app())),
                 mod.rewrite_rule(kore_rewrites(s.aml_symbol, b.app(), a.app())),
                 mod.rewrite_rule(kore_rewrites(s.aml_symbol, c.app(), a.app())),
                 mod.rewrite_rule(kore_rewrites(s.aml_symbol, a.app(), c.app()))]
    events = [(rule, {}) for rule in r]
    inits = [a.app(), b.app()]
    return semantics, events, inits


def sem_vars():
    """unary/binary symbols, a cell, a sort-parametric symbol; rules with variables (one repeated within a rule)"""
    from . import bridge
    P = bridge.P
    from proof_generation.k.kore_convertion.language_semantics import KSortVar, LanguageSemantics
    from proof_generation.proofs.kore import kore_rewrites
    semantics = LanguageSemantics()
    with semantics as sem:
        with sem.module('vars') as mod:
            s = mod.sort('S')
            cs = mod.sort('SortKCell')
            a = mod.symbol('a', s, is_functional=True, is_ctor=True)
            b = mod.symbol('b', s, is_functional=True, is_ctor=True)
            f = mod.symbol('f', s, input_sorts=(s,), is_functional=True, is_ctor=True)
            succ = mod.symbol('succ', s, input_sorts=(s,), is_functional=True, is_ctor=True)
            mk = mod.symbol('mk_y', s, is_functional=True, is_ctor=True)
            nf = mod.symbol('nf', s, input_sorts=(s,), is_functional=False)
            g = mod.symbol('g', s, input_sorts=(s, s), is_functional=True, is_ctor=True)
            k = mod.symbol('k', cs, input_sorts=(s,), is_functional=True, is_ctor=True, is_cell=True)
            fr, to = KSortVar('From'), KSortVar('To')
            inj = mod.symbol('inj', to, sort_params=(fr, to), input_sorts=(fr,), is_functional=True)
            X, Y = P.MetaVar(0), P.MetaVar(1)
            cell = lambda t: k.app(t)  # noqa: E731
            r = [mod.rewrite_rule(kore_rewrites(cs.aml_symbol, cell(f.app(X)), cell(g.app(X, X)))),
                 mod.rewrite_rule(kore_rewrites(cs.aml_symbol, cell(g.app(X, Y)), cell(f.app(Y)))),
                 mod.rewrite_rule(kore_rewrites(cs.aml_symbol, cell(f.app(X)), cell(inj.app(s.aml_symbol, s.aml_symbol, X))))]
    ground = [a.app(), succ.app(b.app()), f.app(a.app()), mk.app()]
    events = []
    for t in ground:
        events.append((r[0], {0: t}))
        events.append((r[2], {0: t}))
    for t, u in itertools.product([ground[0], ground[1], ground[3]], repeat=2):
        events.append((r[1], {0: t, 1: u}))
    # substitutions the module cannot justify (the value's head symbol is not functional): such a step may be refused for that
    # reason even when it starts at the current configuration -- but then it must leave no trace
    NOT_JUSTIFIABLE.update({len(events), len(events) + 1})
    events.append((r[0], {0: nf.app(a.app())}))
    events.append((r[2], {0: nf.app(a.app())}))
    inits = [k.app(f.app(a.app())), k.app(g.app(a.app(), succ.app(b.app()))), k.app(f.app(succ.app(b.app()))), k.app(g.app(mk.app(), a.app())),
             k.app(f.app(nf.app(a.app())))]
    return semantics, events, inits


NOT_JUSTIFIABLE: set = set()      # event indices of 'vars' whose substitution value has a non-functional head

SEMANTICS = {'consts': sem_constants, 'vars': sem_vars}


# ------------------------------------------------------------------------------------------------
# trace exploration
# ------------------------------------------------------------------------------------------------

def expected_step(rule, subst):
    """reference: instantiated rewrite, its lhs and rhs, as expanded terms (the rule was built as
    kore_rewrites(sort, L, R): recover L and R by matching the expansion shape structurally)"""
    from . import bridge, refpat
    full = refpat.minst(bridge.expand(rule.pattern), {k: bridge.expand(v) for k, v in subst.items()}, 'drop_mv')
    return full


def lhs_rhs_of(term):
    """kore_rewrites(s, l, r) = kore_implies(s, l, kore_next(s, r)) = kore_or(s, kore_not(s, l), next r)
       = or(and(neg l, top s), app(next_symbol, r)) = imp(neg(and(neg l, inh s)), app(kore_next, r))"""
    assert term[0] == 'imp', term
    right = term[2]
    assert right[0] == 'app' and right[1] == ('sym', 'kore_next'), right
    rhs = right[2]
    # left: neg(and(neg l, app(inhabitant, s))) ; and(p,q) = neg(imp(p, neg q))
    left = term[1]
    assert left[0] == 'imp' and left[2] == rm.BOT
    conj = left[1]
    assert conj[0] == 'imp' and conj[2] == rm.BOT
    inner = conj[1]
    assert inner[0] == 'imp'
    negl = inner[1]
    assert negl[0] == 'imp' and negl[2] == rm.BOT
    return negl[1], rhs


def run_history(sem_name, init_idx, hist):
    from proof_generation.k.execution_proof_generation import ExecutionProofExp
    semantics, events, inits = SEMANTICS[sem_name]()
    m = ExecutionProofExp(semantics, inits[init_idx])
    for e in hist:
        rule, subst = events[e]
        m.rewrite_event(rule, dict(subst))
    return m, events, inits


def explore_chunk(args):
    sem_name, init_idx, histories, depth_left = args
    from . import bridge
    h = par.harness()
    out = {'transitions': 0, 'accepted': 0, 'refused': 0, 'serialised': 0, 'viol': [], 'children': []}
    for hist in histories:
        try:
            m, events, inits = run_history(sem_name, init_idx, hist)
        except Exception as ex:  # noqa: BLE001
            out['viol'].append(({'kind': 'replay_failed'}, list(hist), f'history {hist} no longer replays: {ex}'))
            continue
        cur = bridge.expand(m.current_configuration)
        claims_before = [bridge.expand(c) for c in m.get_claims()]
        any_child = False
        for e, (rule, subst) in enumerate(events):
            out['transitions'] += 1
            full = expected_step(rule, subst)
            lhs, rhs = lhs_rhs_of(full)
            chained = (lhs == cur)
            m2, _, _ = run_history(sem_name, init_idx, hist)
            n_ax, n_cl, n_pf = len(m2.get_axioms()), len(m2.get_claims()), len(m2.get_proof_expressions())
            desc = list(hist) + [e]
            try:
                m2.rewrite_event(rule, dict(subst))
                ok = True
            except Exception:  # noqa: BLE001
                ok = False
            if ok and not chained:
                out['viol'].append(({'kind': 'unchained_step_accepted', 'semantics': sem_name}, desc,
                                    f'{sem_name}: after {list(hist)} the configuration is {rm.show(cur)[:120]} but event {e} starting at {rm.show(lhs)[:120]} was accepted'))
                continue
            if not ok and chained and sem_name == 'vars' and e in NOT_JUSTIFIABLE:
                # refused because the substitution cannot be justified: allowed, but nothing of the step may stay behind
                out['refused'] += 1
                if (len(m2.get_axioms()), len(m2.get_claims()), len(m2.get_proof_expressions())) != (n_ax, n_cl, n_pf) \
                        or bridge.expand(m2.current_configuration) != cur:
                    out['viol'].append(({'kind': 'refused_step_changed_state', 'semantics': sem_name, 'why': 'unjustifiable substitution'}, desc,
                                        f'{sem_name}: event {e} after {list(hist)} was refused (substitution value with a non-functional head) but left '
                                        f'claims/axioms/proofs behind: {(n_ax, n_cl, n_pf)} -> {(len(m2.get_axioms()), len(m2.get_claims()), len(m2.get_proof_expressions()))}'))
                continue
            if not ok and chained:
                out['viol'].append(({'kind': 'chained_step_refused', 'semantics': sem_name}, desc,
                                    f'{sem_name}: event {e} starts at the current configuration after {list(hist)} but was refused'))
                continue
            if not ok:
                out['refused'] += 1
                if (len(m2.get_axioms()), len(m2.get_claims()), len(m2.get_proof_expressions())) != (n_ax, n_cl, n_pf) \
                        or bridge.expand(m2.current_configuration) != cur:
                    out['viol'].append(({'kind': 'refused_step_changed_state', 'semantics': sem_name}, desc,
                                        f'{sem_name}: the refused event {e} after {list(hist)} changed claims/axioms/proofs or the configuration'))
                continue
            out['accepted'] += 1
            any_child = True
            claims = [bridge.expand(c) for c in m2.get_claims()]
            if claims != claims_before + [full]:
                out['viol'].append(({'kind': 'claims_wrong', 'semantics': sem_name}, desc,
                                    f'{sem_name}: after {desc} the claims are not the instantiated rewrites so far'))
                continue
            if bridge.expand(m2.current_configuration) != rhs:
                out['viol'].append(({'kind': 'configuration_not_advanced', 'semantics': sem_name}, desc,
                                    f'{sem_name}: after {desc} the current configuration is not the right-hand side reached'))
                continue
            if len(m2.get_proof_expressions()) != len(claims):
                out['viol'].append(({'kind': 'proofs_count', 'semantics': sem_name}, desc, f'{sem_name}: {len(claims)} claims but {len(m2.get_proof_expressions())} proofs'))
            if depth_left > 1:
                out['children'].append(tuple(desc))
            else:
                any_child = False
                _serialise(sem_name, init_idx, tuple(desc), h, out)
        if not any_child and hist and depth_left > 1:
            _serialise(sem_name, init_idx, tuple(hist), h, out)
    return out


def hints_chunk(args):
    """ExecutionProofExp.from_proof_hints on EVERY event sequence of the given length (chained or not), with the
    configurations recorded in the hints either truthful or not: what is accepted, and what is claimed, must depend only
    on the rule applications -- a step is accepted iff it starts where the previous rule application ended."""
    sem_name, init_idx, seqs = args
    from . import bridge
    from proof_generation.k.execution_proof_generation import ExecutionProofExp
    from proof_generation.k.kore_convertion.rewrite_steps import RewriteStepExpression
    out = {'hint_runs': 0, 'hint_accepted': 0, 'hint_refused': 0, 'viol': []}
    semantics, events, inits = SEMANTICS[sem_name]()
    exp = [expected_step(rule, subst) for rule, subst in events]
    sides = [lhs_rhs_of(t) for t in exp]
    # repository patterns for the configurations an event starts from / reaches (only used to fill the hints' fields)
    lhs_pat, rhs_pat = {}, {}
    for e, (rule, subst) in enumerate(events):
        try:
            m = ExecutionProofExp(semantics, inits[init_idx])
            full = rule.pattern.instantiate(dict(subst))
            from proof_generation.proofs.kore import kore_rewrites
            _, l, r = kore_rewrites.assert_matches(full)
            lhs_pat[e], rhs_pat[e] = l, r
        except Exception:  # noqa: BLE001
            lhs_pat[e] = rhs_pat[e] = inits[init_idx]
    init_t = bridge.expand(inits[init_idx])
    for seq in seqs:
        # reference outcome: chain from the initial configuration by the rule applications alone
        cur = init_t
        want_claims = []
        ok = True
        for e in seq:
            if sides[e][0] != cur:
                ok = False
                break
            want_claims.append(exp[e])
            cur = sides[e][1]
        for mode in ('truthful', 'after_is_next_start', 'after_is_initial', 'before_is_own_start'):
            hints = []
            for i, e in enumerate(seq):
                rule, subst = events[e]
                before = inits[init_idx] if i == 0 else (lhs_pat[e] if mode == 'before_is_own_start' else rhs_pat[seq[i - 1]])
                after = rhs_pat[e]
                if mode == 'after_is_next_start' and i + 1 < len(seq):
                    after = lhs_pat[seq[i + 1]]
                elif mode == 'after_is_initial':
                    after = inits[init_idx]
                hints.append(RewriteStepExpression(before, after, rule, dict(subst)))
            out['hint_runs'] += 1
            try:
                m = ExecutionProofExp.from_proof_hints(iter(hints), semantics)
                got = [bridge.expand(c) for c in m.get_claims()]
                accepted = True
            except Exception:  # noqa: BLE001
                accepted = False
            desc = {'events': list(seq), 'recorded_configurations': mode}
            if accepted and not ok:
                out['viol'].append(({'kind': 'unchained_hints_accepted', 'semantics': sem_name, 'recorded': mode}, desc,
                                    f'{sem_name}: from_proof_hints accepted the trace {list(seq)} ({mode}) although a step does not start where the previous rule application ended'))
            elif not accepted and ok and sem_name == 'vars' and any(e in NOT_JUSTIFIABLE for e in seq):
                out['hint_refused'] += 1       # a substitution the module cannot justify: refusal is allowed
            elif not accepted and ok:
                out['viol'].append(({'kind': 'chained_hints_refused', 'semantics': sem_name, 'recorded': mode}, desc,
                                    f'{sem_name}: from_proof_hints refused the chained trace {list(seq)} ({mode})'))
            elif accepted:
                out['hint_accepted'] += 1
                if got != want_claims:
                    out['viol'].append(({'kind': 'hint_claims_wrong', 'semantics': sem_name, 'recorded': mode}, desc,
                                        f'{sem_name}: from_proof_hints on {list(seq)} ({mode}) claims something else than the instantiated rewrites in order'))
            else:
                out['hint_refused'] += 1
    return out


def _serialise(sem_name, init_idx, hist, h, out):
    """end to end: both optimise settings, reference machine + real checker, all claims discharged"""
    from . import bridge
    for opt in (False, True):
        try:
            m, _, _ = run_history(sem_name, init_idx, hist)
            want = [bridge.expand(c) for c in m.get_claims()]
            files = pyrun.serialize_real(m, opt)
        except Exception as ex:  # noqa: BLE001
            out['viol'].append(({'kind': 'serialize_raises', 'semantics': sem_name, 'exc': common.exc_family(ex)}, list(hist),
                                f'{sem_name}: serialising the module of trace {list(hist)} (optimize={opt}) raised {type(ex).__name__}: {str(ex)[:150]}'))
            return
        g, c, p = pyrun.triple(files)
        out['serialised'] += 1
        r2 = rm.verify(g, c, p)
        if not h.verify(g, c, p) or r2[0] == 'REJECT':
            out['viol'].append(({'kind': 'module_rejected', 'semantics': sem_name, 'reason': str(r2[1]) if r2[0] == 'REJECT' else 'checker'},
                                list(hist), f'{sem_name}: module of trace {list(hist)} (optimize={opt}) is rejected: reference {r2[:2]}'))
            return
        if r2[0] in ('ACCEPT', 'MAYREJECT'):
            proved = [t for k, t in r2[2].journal if k == 'proved']
            from .c03 import SymMap
            sm = SymMap()
            if len(proved) != len(want) or not all(sm.unify(w, d) for w, d in zip(want, proved)):
                out['viol'].append(({'kind': 'claims_not_discharged', 'semantics': sem_name}, list(hist),
                                    f'{sem_name}: trace {list(hist)}: the journal proves {len(proved)} claims, declared {len(want)} (or different ones)'))


# ------------------------------------------------------------------------------------------------
# conversion from (stub) Kore
# ------------------------------------------------------------------------------------------------

def kore_definition(variant: int = 0):
    """variant 1: the same signature, the rules' variables met in the other order (other numbering at the same ordinals)"""
    import pyk.kore.syntax as K
    S = K.SortApp('SortS')
    C = K.SortApp('SortKCell')
    ctor = (K.App('functional'), K.App('constructor'))
    x, y, z = K.EVar('VarX', S), K.EVar('VarY', S), K.EVar('VarZ', S)
    top = K.Top(C)

    def cell(t):
        return K.App("Lbl'-LT-'k'-GT-'", (), (t,))

    def rule(l, r):
        return K.Axiom((), K.Rewrites(C, K.And(C, (cell(l), top)), K.And(C, (cell(r), top))))
    f = lambda t: K.App('Lblf', (), (t,))  # noqa: E731
    g = lambda t, u: K.App('Lblg', (), (t, u))  # noqa: E731
    sentences = (
        K.SortDecl('SortS'), K.SortDecl('SortKCell'), K.SortDecl('SortOther'),
        K.SymbolDecl(K.Symbol('Lbla'), (), S, ctor), K.SymbolDecl(K.Symbol('Lblb'), (), S, ctor),
        K.SymbolDecl(K.Symbol('Lblf'), (S,), S, ctor), K.SymbolDecl(K.Symbol('Lblg'), (S, S), S, ctor),
        K.SymbolDecl(K.Symbol("Lbl'-LT-'k'-GT-'"), (S,), C, ctor + (K.App('cell'),)),
        K.SymbolDecl(K.Symbol('inj', (K.SortVar('From'), K.SortVar('To'))), (K.SortVar('From'),), K.SortVar('To'), (K.App('functional'),)),
        rule(f(x), g(x, x)),                      # X repeated within a rule
        (rule(g(y, z), f(z)) if variant == 0 else rule(f(z), g(z, y))),   # other names in another rule
        K.Axiom((), K.Top(S)),                    # an axiom that is neither rewrite nor equation: only advances the ordinal
        (rule(g(x, y), g(y, x)) if variant == 0 else rule(g(y, x), f(y))),   # X, Y again: fresh scope per axiom
        rule(f(x), K.App('inj', (S, S), (x,))),
        # a quantifier inside a rule: Z first occurs inside it, X only after it
        rule(g(K.Exists(S, y, g(y, z)), x), g(z, x)),
        # the bound variable's sort differs from the sort of the quantified pattern
        rule(f(K.Exists(S, K.EVar('VarV', K.SortApp('SortOther')), g(K.EVar('VarV', K.SortApp('SortOther')), z))), f(z)),
        # a variable that occurs only on the right-hand side (K's fresh variables): bound by the hint's substitution all the same
        rule(f(x), g(x, K.EVar('VarW', S))),
        # two sort variables in one axiom (and element variables of those sorts)
        K.SymbolDecl(K.Symbol('pairc', (K.SortVar('S1'), K.SortVar('S2'))), (K.SortVar('S1'), K.SortVar('S2')), C, (K.App('functional'),)),
        K.Axiom((K.SortVar('S1'), K.SortVar('S2')),
                K.Rewrites(C, K.And(C, (K.App('pairc', (K.SortVar('S1'), K.SortVar('S2')), (K.EVar('VarP', K.SortVar('S1')), K.EVar('VarQ', K.SortVar('S2')))), top)),
                           K.And(C, (K.App('pairc', (K.SortVar('S2'), K.SortVar('S1')), (K.EVar('VarQ', K.SortVar('S2')), K.EVar('VarP', K.SortVar('S1')))), top)))),
        K.Axiom((K.SortVar('S1'), K.SortVar('S2'), K.SortVar('S3')),
                K.Rewrites(C, K.And(C, (K.App('pairc', (K.SortVar('S1'), K.SortVar('S2')), (K.EVar('VarP', K.SortVar('S1')), K.App('inj', (K.SortVar('S3'), K.SortVar('S2')), (K.EVar('VarR', K.SortVar('S3')),)))), top)),
                           K.And(C, (K.App('pairc', (K.SortVar('S3'), K.SortVar('S1')), (K.EVar('VarR', K.SortVar('S3')), K.EVar('VarP', K.SortVar('S1')))), top)))),
    )
    return K.Definition((K.Module('M', sentences),)), {'S': S, 'C': C, 'f': f, 'g': g, 'cell': cell, 'x': x, 'y': y, 'z': z}


def kore_subst(t, s):
    """s: element-variable names -> Kore terms, and '$'+sort-variable names -> Kore sorts"""
    import pyk.kore.syntax as K
    if isinstance(t, K.EVar):
        return s.get(t.name, t)
    if isinstance(t, K.App):
        sorts = tuple(s.get('$' + x.name, x) if isinstance(x, K.SortVar) else x for x in t.sorts)
        return K.App(t.symbol, sorts, tuple(kore_subst(a, s) for a in t.args))
    if isinstance(t, K.And):
        return K.And(t.sort, tuple(kore_subst(a, s) for a in t.ops))
    if isinstance(t, K.Rewrites):
        return K.Rewrites(t.sort, kore_subst(t.left, s), kore_subst(t.right, s))
    if isinstance(t, K.Exists):
        return K.Exists(t.sort, t.var, kore_subst(t.pattern, {k: v for k, v in s.items() if k != t.var.name}))
    return t


def conversion_check():
    """two definitions are loaded in ONE process before either is used (what is learnt about one must not leak into the other)"""
    from proof_generation.k.kore_convertion.language_semantics import LanguageSemantics
    loaded = []
    for variant in (0, 1):
        defn, e = kore_definition(variant)
        loaded.append((variant, defn, e, LanguageSemantics.from_kore_definition(defn)))
    total = {'evals': 0, 'nontrivial': 0, 'viol': []}
    for variant, defn, e, sem in loaded + loaded[:1]:
        out = conversion_check_one(variant, defn, e, sem)
        total['evals'] += out['evals']
        total['nontrivial'] += out['nontrivial']
        total['viol'] += out['viol']
    return total


def conversion_check_one(variant, defn, e, sem):
    from . import bridge
    import pyk.kore.syntax as K
    from proof_generation.k.kore_convertion.language_semantics import LanguageSemantics
    out = {'evals': 0, 'nontrivial': 0, 'viol': []}
    S = e['S']
    a, b = K.App('Lbla'), K.App('Lblb')
    ground = [a, b, e['f'](a), e['g'](a, b)]
    # conversion keeps distinct ground terms apart (domain values differ only in their literal)
    lits = [K.DV(S, K.String('3')), K.DV(S, K.String('4')), K.DV(e['C'], K.String('3'))]
    wide = ground + lits + [e['f'](lits[0]), e['f'](lits[1]), e['g'](lits[0], lits[1]), e['g'](lits[1], lits[0]), e['cell'](lits[0]), e['cell'](lits[1])]
    conv = []
    for t in wide:
        try:
            conv.append(bridge.expand(sem.convert_pattern(t)))
        except Exception as ex:  # noqa: BLE001
            out['viol'].append(({'kind': 'conversion_raises', 'term': repr(t)[:80]}, f'convert_pattern({t!r}) raised {type(ex).__name__}: {str(ex)[:100]}'))
            conv.append(None)
    for i in range(len(wide)):
        for j in range(i + 1, len(wide)):
            out['evals'] += 1
            if conv[i] is not None and conv[i] == conv[j]:
                out['viol'].append(({'kind': 'distinct_terms_merged'}, f'the distinct Kore terms {wide[i]!r} and {wide[j]!r} convert to the same pattern'))
    axioms = [s for s in defn.modules[0].sentences if isinstance(s, K.Axiom)]
    # a quantifier whose bound variable has another sort than the quantified pattern: the bound variable is constrained to ITS
    # sort inside the binder, the whole pattern to the outer sort outside it (kore_exists(inner_sort, outer_sort, pattern))
    def syms(t, acc):
        if t[0] == 'sym':
            acc.add(t[1])
        for x in t[1:]:
            if isinstance(x, tuple) and x and isinstance(x[0], str):
                syms(x, acc)
        return acc

    def ex_bodies(t, acc):
        if t[0] == 'ex':
            acc.append(t[2])
        for x in t[1:]:
            if isinstance(x, tuple) and x and isinstance(x[0], str):
                ex_bodies(x, acc)
        return acc
    for i, ax in enumerate(axioms):
        if isinstance(ax.pattern, K.Rewrites) and 'VarV' in repr(ax):
            out['evals'] += 1
            t = bridge.expand(sem.get_axiom(i).pattern)
            inside = set()
            for bdy in ex_bodies(t, []):
                syms(bdy, inside)
            if 'ksort_SortOther' not in inside or 'ksort_SortS' in inside:
                out['viol'].append(({'kind': 'exists_sorts', 'ordinal': i},
                                    f'axiom {i}: \\exists{{SortS}}(V:SortOther, ...) converts to a binder body mentioning the sorts {sorted(x for x in inside if x.startswith("ksort_"))} '
                                    f'(expected the bound variable in SortOther inside, SortS outside)'))
    ordinals = {}
    for i, ax in enumerate(axioms):
        if isinstance(ax.pattern, K.Rewrites):
            ordinals[i] = ax
    for ordinal, ax in ordinals.items():
        try:
            rule = sem.get_axiom(ordinal)
        except Exception as ex:  # noqa: BLE001
            out['viol'].append(({'kind': 'axiom_missing', 'ordinal': ordinal}, f'axiom {ordinal} not retrievable: {ex}'))
            continue
        pre = K.Rewrites(ax.pattern.sort, ax.pattern.left.ops[0], ax.pattern.right.ops[0])
        # variables: equal names -> equal metavariables, distinct -> distinct (within this axiom)
        names = []
        sortvars = []

        def collect(t):
            if isinstance(t, K.EVar):
                if t.name not in names:
                    names.append(t.name)
            elif isinstance(t, K.App):
                for x in t.sorts:
                    if isinstance(x, K.SortVar) and x.name not in sortvars:
                        sortvars.append(x.name)
                for x in t.args:
                    collect(x)
            elif isinstance(t, K.Rewrites):
                collect(t.left)
                collect(t.right)
            elif isinstance(t, K.Exists):
                collect(t.var)
                collect(t.pattern)
        collect(pre)
        mvs = refpat_mvs(bridge.expand(rule.pattern))
        out['evals'] += 1
        if len(mvs) != len(names) + len(sortvars):
            out['viol'].append(({'kind': 'variable_count', 'ordinal': ordinal},
                                f'axiom {ordinal}: {len(names) + len(sortvars)} distinct Kore variables {names + sortvars} but {len(mvs)} metavariables {sorted(mvs)}'))
            continue
        if sortvars:
            # sort variables are not part of convert_substitutions' interface: compare by matching. Every assignment of
            # (pairwise different) ground sorts and terms gives a Kore instance whose conversion must be an instance of
            # the converted rule, under a substitution that agrees with convert_substitutions on the element variables
            from .c13 import ref_match
            sorts = [e['S'], e['C'], K.SortApp('SortOther')]
            for svals in itertools.permutations(sorts, len(sortvars)):
                for vals in itertools.permutations(ground, len(names)):
                    sub = dict(zip(names, vals))
                    sub.update({'$' + n: v for n, v in zip(sortvars, svals)})
                    out['evals'] += 1
                    out['nontrivial'] += 1
                    try:
                        inst = bridge.expand(sem.convert_pattern(kore_subst(pre, sub)))
                        conv_s = {k: bridge.expand(v) for k, v in sem.convert_substitutions(dict(zip(names, vals)), ordinal).items()}
                    except Exception as ex:  # noqa: BLE001
                        out['viol'].append(({'kind': 'conversion_raises', 'ordinal': ordinal}, f'axiom {ordinal} with sort variables: {type(ex).__name__}: {str(ex)[:120]}'))
                        break
                    m = ref_match(bridge.expand(rule.pattern), inst, {})
                    if not isinstance(m, dict):
                        out['viol'].append(({'kind': 'sort_instance_not_matched', 'ordinal': ordinal},
                                            f'axiom {ordinal}: converting the rule at sorts {[x.name for x in svals]} does not give an instance of the converted rule (distinct variables merged?)'))
                        break
                    if any(m.get(k) != v for k, v in conv_s.items()) or len({repr(v) for v in m.values()}) != len(mvs):
                        out['viol'].append(({'kind': 'substitution_commutes', 'ordinal': ordinal},
                                            f'axiom {ordinal}: the instance at sorts {[x.name for x in svals]} is matched by {m}, convert_substitutions gives {conv_s}'))
                        break
                else:
                    continue
                break
            continue
        bound = set()

        def binders(t):
            if isinstance(t, K.Exists):
                bound.add(t.var.name)
                binders(t.pattern)
            elif isinstance(t, K.App):
                for x in t.args:
                    binders(x)
            elif isinstance(t, K.Rewrites):
                binders(t.left)
                binders(t.right)
        binders(pre)
        free_names = [n for n in names if n not in bound]      # a substitution says nothing about bound variables
        for vals in itertools.product(ground, repeat=len(free_names)):
            s = dict(zip(free_names, vals))
            out['evals'] += 1
            if len(set(map(repr, vals))) > 1:
                out['nontrivial'] += 1
            try:
                conv_s = sem.convert_substitutions(dict(s), ordinal)
                lhs = bridge.expand(rule.pattern.instantiate(conv_s))
                rhs = bridge.expand(sem.convert_pattern(kore_subst(pre, s)))
            except Exception as ex:  # noqa: BLE001
                out['viol'].append(({'kind': 'conversion_raises', 'ordinal': ordinal}, f'axiom {ordinal}, substitution {list(s)}: {type(ex).__name__}: {str(ex)[:120]}'))
                break
            if lhs != rhs:
                out['viol'].append(({'kind': 'substitution_commutes', 'ordinal': ordinal},
                                    f'axiom {ordinal}: convert(rule).instantiate(convert(s)) != convert(s(rule)) for s={ {k: repr(v)[:30] for k, v in s.items()} }'))
                break
    return out


def kore_alphabet():
    import pyk.kore.syntax as K
    from proof_generation.k.kore_convertion.language_semantics import LanguageSemantics
    defn, e = kore_definition()
    sem = LanguageSemantics.from_kore_definition(defn)
    C = e['C']
    a, b = K.App('Lbla'), K.App('Lblb')
    axioms = [x for x in defn.modules[0].sentences if isinstance(x, K.Axiom)]
    events = []
    for ordinal, ax in enumerate(axioms):
        if not isinstance(ax.pattern, K.Rewrites) or ax.vars:
            continue
        l, r = ax.pattern.left.ops[0], ax.pattern.right.ops[0]
        names = []

        def collect(t):
            if isinstance(t, K.EVar):
                if t.name not in names:
                    names.append(t.name)
            elif isinstance(t, K.App):
                for x in t.args:
                    collect(x)
        collect(l)
        collect(r)
        pool = [a, b, e['f'](a)] if len(names) == 1 else [a, b]
        for vals in itertools.product(pool, repeat=len(names)):
            events.append((ordinal, dict(zip(names, vals)), l, r))
    return defn, e, sem, events


def kore_trace_chunk(args):
    """the pipeline users run: LLVMRewriteTrace (rule events with Kore substitutions, interleaved with configurations)
    -> get_proof_hints -> from_proof_hints, on every event sequence of the given lengths over the stub Kore definition"""
    init_idx, seqs = args
    from . import bridge
    import pyk.kore.syntax as K
    from proof_generation.k.execution_proof_generation import ExecutionProofExp
    from proof_generation.k.kore_convertion.language_semantics import LanguageSemantics
    from proof_generation.k.kore_convertion.rewrite_steps import get_proof_hints
    from proof_generation.llvm_proof_hint import LLVMRewriteTrace, LLVMRuleEvent
    out = {'kore_runs': 0, 'kore_accepted': 0, 'kore_refused': 0, 'viol': []}
    defn, e, sem, events = kore_alphabet()
    C = e['C']
    a, b = K.App('Lbla'), K.App('Lblb')
    inits = [e['cell'](e['f'](a)), e['cell'](e['g'](a, b))]
    init = inits[init_idx]
    for seq in seqs:
        cur = init
        ok = True
        want = []
        for i in seq:
            ordinal, sub, l, r = events[i]
            li, ri = kore_subst(l, sub), kore_subst(r, sub)
            if li != cur:
                ok = False
                break
            want.append(bridge.expand(sem.convert_pattern(K.Rewrites(C, li, ri))))
            cur = ri
        for mode in ('truthful', 'configurations_are_initial', 'configurations_are_next_start', 'extra_events'):
            trace = []
            for k, i in enumerate(seq):
                ordinal, sub, l, r = events[i]
                if mode == 'extra_events' and k > 0:
                    # other events of the backend between two steps (one here, three before the third step): not rewrite steps
                    from proof_generation.llvm_proof_hint import LLVMSideCondEvent
                    for _ in range(1 if k == 1 else 3):
                        trace.append(LLVMSideCondEvent(ordinal, tuple(sub.items())))
                trace.append(LLVMRuleEvent(ordinal, tuple(sub.items())))
                cfg = kore_subst(r, sub)
                if mode == 'configurations_are_initial':
                    cfg = init
                elif mode == 'configurations_are_next_start' and k + 1 < len(seq):
                    o2, s2, l2, _ = events[seq[k + 1]]
                    cfg = kore_subst(l2, s2)
                trace.append(cfg)
            out['kore_runs'] += 1
            desc = {'events': [(events[i][0], {k: repr(v) for k, v in events[i][1].items()}) for i in seq], 'recorded_configurations': mode}
            try:
                hints = get_proof_hints(LLVMRewriteTrace((), init, tuple(trace)), sem)
                m = ExecutionProofExp.from_proof_hints(hints, sem)
                got = [bridge.expand(c) for c in m.get_claims()]
                accepted = True
            except Exception:  # noqa: BLE001
                accepted = False
            if accepted and not ok:
                out['viol'].append(({'kind': 'unchained_trace_accepted', 'recorded': mode}, desc,
                                    f'Kore trace {desc["events"]} ({mode}) accepted although a step does not start where the previous rule application ended'))
            elif not accepted and ok:
                out['viol'].append(({'kind': 'chained_trace_refused', 'recorded': mode}, desc, f'Kore trace {desc["events"]} ({mode}) is chained but was refused'))
            elif accepted:
                out['kore_accepted'] += 1
                if got != want:
                    out['viol'].append(({'kind': 'trace_claims_wrong', 'recorded': mode}, desc,
                                        f'Kore trace {desc["events"]} ({mode}): the claims are not the converted instantiated rewrites in order'))
                elif mode == 'truthful':
                    # checkable: the k-th proof expression, run AFTER the whole trace has been converted (as serialisation does),
                    # proves the k-th claim -- not what a later application of the same rule left behind
                    from proof_generation.basic_interpreter import BasicInterpreter, ExecutionPhase
                    out['kore_proofs_run'] = out.get('kore_proofs_run', 0) + len(want)
                    try:
                        thunks = list(m.get_proof_expressions())
                        concl = [bridge.expand(t(BasicInterpreter(ExecutionPhase.Proof)).conclusion) for t in thunks]
                    except Exception as ex:  # noqa: BLE001
                        concl = ('raised', type(ex).__name__)
                    if concl != want:
                        out['viol'].append(({'kind': 'trace_proofs_wrong', 'raised': isinstance(concl, tuple)}, desc,
                                            f'Kore trace {desc["events"]}: running the proof expressions gives {concl if isinstance(concl, tuple) else "other conclusions than the claims, position by position"}'))
            else:
                out['kore_refused'] += 1
    return out


def refpat_mvs(t):
    from . import refpat
    return refpat.mv_ids(t)


def replay(path: str) -> int:
    v = json.loads(open(path).read())
    print(json.dumps(v['signature']), '\n', v.get('what'))
    return 1


def main(argv=None) -> int:
    argv = argv or []
    if argv and argv[0] == '--replay':
        return replay(argv[1])
    chk = common.Check(PROP, 'model_checking')
    thorough = chk.tier == 'thorough'
    common.build_harness()
    agg: dict = {}
    depth = 5 if thorough else 4
    states = 0
    for sem_name in SEMANTICS:
        _, events, inits = SEMANTICS[sem_name]()
        for init_idx in range(len(inits)):
            frontier = [()]
            for lvl in range(depth):
                states += len(frontier)
                work = [(sem_name, init_idx, ch, depth - lvl) for ch in par.chunks(frontier, common.ncpu() * 2)]
                nxt = []
                for out in par.pmap(explore_chunk, work):
                    for k, v in out.items():
                        if k == 'viol':
                            for sig, hist, what in v:
                                chk.violation(sig, {'signature': sig, 'history': hist, 'semantics': sem_name, 'init': init_idx}, what)
                        elif k == 'children':
                            nxt += v
                        else:
                            agg[k] = agg.get(k, 0) + v
                frontier = nxt
                if not frontier:
                    break
    # traces given as proof hints
    hlen = 3 if thorough else 2
    hwork = []
    for sem_name in SEMANTICS:
        _, events, inits = SEMANTICS[sem_name]()
        n_ev = len(events)
        seqs = [t for k in range(1, hlen + 1) for t in itertools.product(range(n_ev), repeat=k)]
        for init_idx in range(len(inits)):
            for ch in par.chunks(seqs, 8):
                hwork.append((sem_name, init_idx, ch))
    for out in par.pmap(hints_chunk, hwork):
        for k, v in out.items():
            if k == 'viol':
                for sig, d, what in v:
                    chk.violation(sig, {'signature': sig, 'case': d}, what)
            else:
                agg[k] = agg.get(k, 0) + v
    n_kore_events = len(kore_alphabet()[3])
    kseqs = [t for k in range(1, hlen + 1) for t in itertools.product(range(n_kore_events), repeat=k)]
    for out in par.pmap(kore_trace_chunk, [(ii, ch) for ii in (0, 1) for ch in par.chunks(kseqs, 16)]):
        for k, v in out.items():
            if k == 'viol':
                for sig, d, what in v:
                    chk.violation(sig, {'signature': sig, 'case': d}, what)
            else:
                agg[k] = agg.get(k, 0) + v
    conv = conversion_check()
    for sig, what in conv['viol']:
        chk.violation(sig, {'signature': sig}, what)
    agg['conversion_evals'] = conv['evals']
    pyrun.cleanup()
    chk.set('states', states)
    chk.set('transitions', agg.get('transitions', 0) + agg.get('hint_runs', 0) + agg.get('kore_runs', 0))
    chk.set('traces_validated_against_impl', agg.get('serialised', 0))
    chk.set('exhaustive', True)
    chk.set('detail', agg)
    chk.set('bounds', {'trace_length': depth, 'semantics': list(SEMANTICS), 'kore_axioms_converted': 6})
    chk.sample({'semantics': 'vars', 'history': [0, 6], 'meaning': 'k(f(a)) => k(g(a,a)) => k(f(a))'})
    chk.assume('mc/stubs/pyk/kore/syntax.py stands in for pyk.kore.syntax (absent from the pinned environment); differences between the stub and the real library are outside the check')
    chk.assume('every (rule, substitution) event of the alphabet is tried from every reached state; a step is expected to be accepted iff its instantiated left-hand side equals the configuration reached')
    return chk.finish()


if __name__ == '__main__':
    sys.exit(main(sys.argv[1:]))
