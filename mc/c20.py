"""C20 -- K execution traces become chained, checkable rewrite proofs.

Signatures are built through the real LanguageSemantics builder API and, for conversion, through
from_kore_definition on stub Kore terms (mc/stubs/pyk/kore/syntax.py stands in for the absent pyk.kore).
Explicit-state exploration of trace histories: a state is the history of rewrite events fed to a real
ExecutionProofExp; from every state every (rule, substitution) event of the alphabet is tried -- a step that starts
at the configuration reached must be accepted, any other step must raise and leave claims/axioms/proofs unchanged.
Invariant after every accepted step: the claims are exactly the instantiated rewrites so far, in order, chained.
Every maximal accepted history is serialised (both settings) and must be accepted by the reference machine and the
real checker with all claims discharged. Conversion: equal Kore variables map to equal metavariables and distinct
to distinct; convert(rule).instantiate(convert_substitutions(s)) == convert(s(rule))."""
from __future__ import annotations

import itertools
import json
import os
import sys

from . import common

STUBS = str(common.VERIF / 'mc' / 'stubs')
if STUBS not in sys.path:
    sys.path.insert(0, STUBS)

from . import par, pyrun  # noqa: E402
from . import refmachine as rm  # noqa: E402

PROP = 'C20'


# ------------------------------------------------------------------------------------------------
# signatures (real builder API)
# ------------------------------------------------------------------------------------------------

def sem_constants():
    from . import bridge  # noqa: F401
    from proof_generation.k.kore_convertion.language_semantics import LanguageSemantics
    from proof_generation.proofs.kore import kore_rewrites
    semantics = LanguageSemantics()
    with semantics as sem:
        with sem.module('consts') as mod:
            s = mod.sort('S')
            a = mod.symbol('a', s, is_functional=True, is_ctor=True)
            b = mod.symbol('b', s, is_functional=True, is_ctor=True)
            c = mod.symbol('c', s, is_functional=True, is_ctor=True)
            r = [mod.rewrite_rule(kore_rewrites(s.aml_symbol, a.app(), b.app())),
                 mod.rewrite_rule(kore_rewrites(s.aml_symbol, b.app(), c.app())),
                 mod.rewrite_rule(kore_rewrites(s.aml_symbol, b.app(), a.app())),
                 mod.rewrite_rule(kore_rewrites(s.aml_symbol, c.app(), a.app())),
                 mod.rewrite_rule(kore_rewrites(s.aml_symbol, a.app(), c.app()))]
    events = [(rule, {}) for rule in r]
    inits = [a.app(), b.app()]
    return semantics, events, inits


def sem_vars():
    """unary/binary symbols, a cell, a sort-parametric symbol; rules with variables (one repeated within a rule)"""
    from . import bridge
    P = bridge.P
    from proof_generation.k.kore_convertion.language_semantics import KSortVar, LanguageSemantics
    from proof_generation.proofs.kore import kore_rewrites
    semantics = LanguageSemantics()
    with semantics as sem:
        with sem.module('vars') as mod:
            s = mod.sort('S')
            cs = mod.sort('SortKCell')
            a = mod.symbol('a', s, is_functional=True, is_ctor=True)
            b = mod.symbol('b', s, is_functional=True, is_ctor=True)
            f = mod.symbol('f', s, input_sorts=(s,), is_functional=True, is_ctor=True)
            succ = mod.symbol('succ', s, input_sorts=(s,), is_functional=True, is_ctor=True)
            mk = mod.symbol('mk_y', s, is_functional=True, is_ctor=True)
            g = mod.symbol('g', s, input_sorts=(s, s), is_functional=True, is_ctor=True)
            k = mod.symbol('k', cs, input_sorts=(s,), is_functional=True, is_ctor=True, is_cell=True)
            fr, to = KSortVar('From'), KSortVar('To')
            inj = mod.symbol('inj', to, sort_params=(fr, to), input_sorts=(fr,), is_functional=True)
            X, Y = P.MetaVar(0), P.MetaVar(1)
            cell = lambda t: k.app(t)  # noqa: E731
            r = [mod.rewrite_rule(kore_rewrites(cs.aml_symbol, cell(f.app(X)), cell(g.app(X, X)))),
                 mod.rewrite_rule(kore_rewrites(cs.aml_symbol, cell(g.app(X, Y)), cell(f.app(Y)))),
                 mod.rewrite_rule(kore_rewrites(cs.aml_symbol, cell(f.app(X)), cell(inj.app(s.aml_symbol, s.aml_symbol, X))))]
    ground = [a.app(), succ.app(b.app()), f.app(a.app()), mk.app()]
    events = []
    for t in ground:
        events.append((r[0], {0: t}))
        events.append((r[2], {0: t}))
    for t, u in itertools.product([ground[0], ground[1], ground[3]], repeat=2):
        events.append((r[1], {0: t, 1: u}))
    inits = [k.app(f.app(a.app())), k.app(g.app(a.app(), succ.app(b.app()))), k.app(f.app(succ.app(b.app()))), k.app(g.app(mk.app(), a.app()))]
    return semantics, events, inits


SEMANTICS = {'consts': sem_constants, 'vars': sem_vars}


# ------------------------------------------------------------------------------------------------
# trace exploration
# ------------------------------------------------------------------------------------------------

def expected_step(rule, subst):
    """reference: instantiated rewrite, its lhs and rhs, as expanded terms (the rule was built as
    kore_rewrites(sort, L, R): recover L and R by matching the expansion shape structurally)"""
    from . import bridge, refpat
    full = refpat.minst(bridge.expand(rule.pattern), {k: bridge.expand(v) for k, v in subst.items()}, 'drop_mv')
    return full


def lhs_rhs_of(term):
    """kore_rewrites(s, l, r) = kore_implies(s, l, kore_next(s, r)) = kore_or(s, kore_not(s, l), next r)
       = or(and(neg l, top s), app(next_symbol, r)) = imp(neg(and(neg l, inh s)), app(kore_next, r))"""
    assert term[0] == 'imp', term
    right = term[2]
    assert right[0] == 'app' and right[1] == ('sym', 'kore_next'), right
    rhs = right[2]
    # left: neg(and(neg l, app(inhabitant, s))) ; and(p,q) = neg(imp(p, neg q))
    left = term[1]
    assert left[0] == 'imp' and left[2] == rm.BOT
    conj = left[1]
    assert conj[0] == 'imp' and conj[2] == rm.BOT
    inner = conj[1]
    assert inner[0] == 'imp'
    negl = inner[1]
    assert negl[0] == 'imp' and negl[2] == rm.BOT
    return negl[1], rhs


def run_history(sem_name, init_idx, hist):
    from proof_generation.k.execution_proof_generation import ExecutionProofExp
    semantics, events, inits = SEMANTICS[sem_name]()
    m = ExecutionProofExp(semantics, inits[init_idx])
    for e in hist:
        rule, subst = events[e]
        m.rewrite_event(rule, dict(subst))
    return m, events, inits


def explore_chunk(args):
    sem_name, init_idx, histories, depth_left = args
    from . import bridge
    h = par.harness()
    out = {'transitions': 0, 'accepted': 0, 'refused': 0, 'serialised': 0, 'viol': [], 'children': []}
    for hist in histories:
        try:
            m, events, inits = run_history(sem_name, init_idx, hist)
        except Exception as ex:  # noqa: BLE001
            out['viol'].append(({'kind': 'replay_failed'}, list(hist), f'history {hist} no longer replays: {ex}'))
            continue
        cur = bridge.expand(m.current_configuration)
        claims_before = [bridge.expand(c) for c in m.get_claims()]
        any_child = False
        for e, (rule, subst) in enumerate(events):
            out['transitions'] += 1
            full = expected_step(rule, subst)
            lhs, rhs = lhs_rhs_of(full)
            chained = (lhs == cur)
            m2, _, _ = run_history(sem_name, init_idx, hist)
            n_ax, n_cl, n_pf = len(m2.get_axioms()), len(m2.get_claims()), len(m2.get_proof_expressions())
            desc = list(hist) + [e]
            try:
                m2.rewrite_event(rule, dict(subst))
                ok = True
            except Exception:  # noqa: BLE001
                ok = False
            if ok and not chained:
                out['viol'].append(({'kind': 'unchained_step_accepted', 'semantics': sem_name}, desc,
                                    f'{sem_name}: after {list(hist)} the configuration is {rm.show(cur)[:120]} but event {e} starting at {rm.show(lhs)[:120]} was accepted'))
                continue
            if not ok and chained:
                out['viol'].append(({'kind': 'chained_step_refused', 'semantics': sem_name}, desc,
                                    f'{sem_name}: event {e} starts at the current configuration after {list(hist)} but was refused'))
                continue
            if not ok:
                out['refused'] += 1
                if (len(m2.get_axioms()), len(m2.get_claims()), len(m2.get_proof_expressions())) != (n_ax, n_cl, n_pf) \
                        or bridge.expand(m2.current_configuration) != cur:
                    out['viol'].append(({'kind': 'refused_step_changed_state', 'semantics': sem_name}, desc,
                                        f'{sem_name}: the refused event {e} after {list(hist)} changed claims/axioms/proofs or the configuration'))
                continue
            out['accepted'] += 1
            any_child = True
            claims = [bridge.expand(c) for c in m2.get_claims()]
            if claims != claims_before + [full]:
                out['viol'].append(({'kind': 'claims_wrong', 'semantics': sem_name}, desc,
                                    f'{sem_name}: after {desc} the claims are not the instantiated rewrites so far'))
                continue
            if bridge.expand(m2.current_configuration) != rhs:
                out['viol'].append(({'kind': 'configuration_not_advanced', 'semantics': sem_name}, desc,
                                    f'{sem_name}: after {desc} the current configuration is not the right-hand side reached'))
                continue
            if len(m2.get_proof_expressions()) != len(claims):
                out['viol'].append(({'kind': 'proofs_count', 'semantics': sem_name}, desc, f'{sem_name}: {len(claims)} claims but {len(m2.get_proof_expressions())} proofs'))
            if depth_left > 1:
                out['children'].append(tuple(desc))
            else:
                any_child = False
                _serialise(sem_name, init_idx, tuple(desc), h, out)
        if not any_child and hist and depth_left > 1:
            _serialise(sem_name, init_idx, tuple(hist), h, out)
    return out


def _serialise(sem_name, init_idx, hist, h, out):
    """end to end: both optimise settings, reference machine + real checker, all claims discharged"""
    from . import bridge
    for opt in (False, True):
        try:
            m, _, _ = run_history(sem_name, init_idx, hist)
            want = [bridge.expand(c) for c in m.get_claims()]
            files = pyrun.serialize_real(m, opt)
        except Exception as ex:  # noqa: BLE001
            out['viol'].append(({'kind': 'serialize_raises', 'semantics': sem_name, 'exc': type(ex).__name__}, list(hist),
                                f'{sem_name}: serialising the module of trace {list(hist)} (optimize={opt}) raised {type(ex).__name__}: {str(ex)[:150]}'))
            return
        g, c, p = pyrun.triple(files)
        out['serialised'] += 1
        r2 = rm.verify(g, c, p)
        if not h.verify(g, c, p) or r2[0] == 'REJECT':
            out['viol'].append(({'kind': 'module_rejected', 'semantics': sem_name, 'reason': str(r2[1]) if r2[0] == 'REJECT' else 'checker'},
                                list(hist), f'{sem_name}: module of trace {list(hist)} (optimize={opt}) is rejected: reference {r2[:2]}'))
            return
        if r2[0] in ('ACCEPT', 'MAYREJECT'):
            proved = [t for k, t in r2[2].journal if k == 'proved']
            from .c03 import SymMap
            sm = SymMap()
            if len(proved) != len(want) or not all(sm.unify(w, d) for w, d in zip(want, proved)):
                out['viol'].append(({'kind': 'claims_not_discharged', 'semantics': sem_name}, list(hist),
                                    f'{sem_name}: trace {list(hist)}: the journal proves {len(proved)} claims, declared {len(want)} (or different ones)'))


# ------------------------------------------------------------------------------------------------
# conversion from (stub) Kore
# ------------------------------------------------------------------------------------------------

def kore_definition():
    import pyk.kore.syntax as K
    S = K.SortApp('SortS')
    C = K.SortApp('SortKCell')
    ctor = (K.App('functional'), K.App('constructor'))
    x, y, z = K.EVar('VarX', S), K.EVar('VarY', S), K.EVar('VarZ', S)
    top = K.Top(C)

    def cell(t):
        return K.App("Lbl'-LT-'k'-GT-'", (), (t,))

    def rule(l, r):
        return K.Axiom((), K.Rewrites(C, K.And(C, (cell(l), top)), K.And(C, (cell(r), top))))
    f = lambda t: K.App('Lblf', (), (t,))  # noqa: E731
    g = lambda t, u: K.App('Lblg', (), (t, u))  # noqa: E731
    sentences = (
        K.SortDecl('SortS'), K.SortDecl('SortKCell'),
        K.SymbolDecl(K.Symbol('Lbla'), (), S, ctor), K.SymbolDecl(K.Symbol('Lblb'), (), S, ctor),
        K.SymbolDecl(K.Symbol('Lblf'), (S,), S, ctor), K.SymbolDecl(K.Symbol('Lblg'), (S, S), S, ctor),
        K.SymbolDecl(K.Symbol("Lbl'-LT-'k'-GT-'"), (S,), C, ctor + (K.App('cell'),)),
        K.SymbolDecl(K.Symbol('inj', (K.SortVar('From'), K.SortVar('To'))), (K.SortVar('From'),), K.SortVar('To'), (K.App('functional'),)),
        rule(f(x), g(x, x)),                      # X repeated within a rule
        rule(g(y, z), f(z)),                      # other names in another rule
        K.Axiom((), K.Top(S)),                    # an axiom that is neither rewrite nor equation: only advances the ordinal
        rule(g(x, y), g(y, x)),                   # X, Y again: fresh scope per axiom
        rule(f(x), K.App('inj', (S, S), (x,))),
    )
    return K.Definition((K.Module('M', sentences),)), {'S': S, 'C': C, 'f': f, 'g': g, 'cell': cell, 'x': x, 'y': y, 'z': z}


def kore_subst(t, s):
    import pyk.kore.syntax as K
    if isinstance(t, K.EVar):
        return s.get(t.name, t)
    if isinstance(t, K.App):
        return K.App(t.symbol, t.sorts, tuple(kore_subst(a, s) for a in t.args))
    if isinstance(t, K.And):
        return K.And(t.sort, tuple(kore_subst(a, s) for a in t.ops))
    if isinstance(t, K.Rewrites):
        return K.Rewrites(t.sort, kore_subst(t.left, s), kore_subst(t.right, s))
    return t


def conversion_check():
    from . import bridge
    import pyk.kore.syntax as K
    from proof_generation.k.kore_convertion.language_semantics import LanguageSemantics
    out = {'evals': 0, 'nontrivial': 0, 'viol': []}
    defn, e = kore_definition()
    sem = LanguageSemantics.from_kore_definition(defn)
    S = e['S']
    a, b = K.App('Lbla'), K.App('Lblb')
    ground = [a, b, e['f'](a), e['g'](a, b)]
    axioms = [s for s in defn.modules[0].sentences if isinstance(s, K.Axiom)]
    ordinals = {}
    for i, ax in enumerate(axioms):
        if isinstance(ax.pattern, K.Rewrites):
            ordinals[i] = ax
    for ordinal, ax in ordinals.items():
        try:
            rule = sem.get_axiom(ordinal)
        except Exception as ex:  # noqa: BLE001
            out['viol'].append(({'kind': 'axiom_missing', 'ordinal': ordinal}, f'axiom {ordinal} not retrievable: {ex}'))
            continue
        pre = K.Rewrites(ax.pattern.sort, ax.pattern.left.ops[0], ax.pattern.right.ops[0])
        # variables: equal names -> equal metavariables, distinct -> distinct (within this axiom)
        names = []

        def collect(t):
            if isinstance(t, K.EVar):
                if t.name not in names:
                    names.append(t.name)
            elif isinstance(t, K.App):
                for x in t.args:
                    collect(x)
            elif isinstance(t, K.Rewrites):
                collect(t.left)
                collect(t.right)
        collect(pre)
        mvs = refpat_mvs(bridge.expand(rule.pattern))
        out['evals'] += 1
        if len(mvs) != len(names):
            out['viol'].append(({'kind': 'variable_count', 'ordinal': ordinal},
                                f'axiom {ordinal}: {len(names)} distinct Kore variables {names} but {len(mvs)} metavariables {sorted(mvs)}'))
            continue
        for vals in itertools.product(ground, repeat=len(names)):
            s = dict(zip(names, vals))
            out['evals'] += 1
            if len(set(map(repr, vals))) > 1:
                out['nontrivial'] += 1
            try:
                conv_s = sem.convert_substitutions(dict(s), ordinal)
                lhs = bridge.expand(rule.pattern.instantiate(conv_s))
                rhs = bridge.expand(sem.convert_pattern(kore_subst(pre, s)))
            except Exception as ex:  # noqa: BLE001
                out['viol'].append(({'kind': 'conversion_raises', 'ordinal': ordinal}, f'axiom {ordinal}, substitution {list(s)}: {type(ex).__name__}: {str(ex)[:120]}'))
                break
            if lhs != rhs:
                out['viol'].append(({'kind': 'substitution_commutes', 'ordinal': ordinal},
                                    f'axiom {ordinal}: convert(rule).instantiate(convert(s)) != convert(s(rule)) for s={ {k: repr(v)[:30] for k, v in s.items()} }'))
                break
    return out


def refpat_mvs(t):
    from . import refpat
    return refpat.mv_ids(t)


def replay(path: str) -> int:
    v = json.loads(open(path).read())
    print(json.dumps(v['signature']), '\n', v.get('what'))
    return 1


def main(argv=None) -> int:
    argv = argv or []
    if argv and argv[0] == '--replay':
        return replay(argv[1])
    chk = common.Check(PROP, 'model_checking')
    thorough = chk.tier == 'thorough'
    common.build_harness()
    agg: dict = {}
    depth = 5 if thorough else 4
    states = 0
    for sem_name in SEMANTICS:
        _, events, inits = SEMANTICS[sem_name]()
        for init_idx in range(len(inits)):
            frontier = [()]
            for lvl in range(depth):
                states += len(frontier)
                work = [(sem_name, init_idx, ch, depth - lvl) for ch in par.chunks(frontier, common.ncpu() * 2)]
                nxt = []
                for out in par.pmap(explore_chunk, work):
                    for k, v in out.items():
                        if k == 'viol':
                            for sig, hist, what in v:
                                chk.violation(sig, {'signature': sig, 'history': hist, 'semantics': sem_name, 'init': init_idx}, what)
                        elif k == 'children':
                            nxt += v
                        else:
                            agg[k] = agg.get(k, 0) + v
                frontier = nxt
                if not frontier:
                    break
    conv = conversion_check()
    for sig, what in conv['viol']:
        chk.violation(sig, {'signature': sig}, what)
    agg['conversion_evals'] = conv['evals']
    pyrun.cleanup()
    chk.set('states', states)
    chk.set('transitions', agg.get('transitions', 0))
    chk.set('traces_validated_against_impl', agg.get('serialised', 0))
    chk.set('exhaustive', True)
    chk.set('detail', agg)
    chk.set('bounds', {'trace_length': depth, 'semantics': list(SEMANTICS), 'kore_axioms_converted': 4})
    chk.sample({'semantics': 'vars', 'history': [0, 6], 'meaning': 'k(f(a)) => k(g(a,a)) => k(f(a))'})
    chk.assume('mc/stubs/pyk/kore/syntax.py stands in for pyk.kore.syntax (absent from the pinned environment); differences between the stub and the real library are outside the check')
    chk.assume('every (rule, substitution) event of the alphabet is tried from every reached state; a step is expected to be accepted iff its instantiated left-hand side equals the configuration reached')
    return chk.finish()


if __name__ == '__main__':
    sys.exit(main(sys.argv[1:]))
