"""E2 -- reference stack machine: an independent reading of /repo/docs/proof-language.md.

Terms are nested tuples:
  ('evar', n) ('svar', n) ('sym', n) ('imp', a, b) ('app', a, b) ('ex', n, a) ('mu', n, a)
  ('mv', id, E, S, P, N, H)   E,S,P,N,H tuples of ints (the five constraint lists)
  ('esub', head, n, plug) ('ssub', head, n, plug)
Stack / memory entries are (kind, term) with kind 'P' (pattern) or 'T' (proved).

Verdicts are three-valued, see DESIGN Appendix A:  Reject(reason) / Unspecified(why) are exceptions,
normal return means ACCEPT.  `strict_unspec` on a machine state means "a refusal here is allowed too"
(over-strict capture avoidance), recorded in Machine.may_reject.
"""
from __future__ import annotations

from functools import lru_cache


class Reject(Exception):
    def __init__(self, reason: str, detail: str = ''):
        super().__init__(reason + (': ' + detail if detail else ''))
        self.reason = reason
        self.detail = detail


class Unspecified(Exception):
    pass


# ------------------------------------------------------------------------------------------------
# terms
# ------------------------------------------------------------------------------------------------

def evar(n): return ('evar', n)
def svar(n): return ('svar', n)
def sym(n): return ('sym', n)
def imp(a, b): return ('imp', a, b)
def app(a, b): return ('app', a, b)
def ex(n, a): return ('ex', n, a)
def mu(n, a): return ('mu', n, a)
def mv(i, E=(), S=(), P=(), N=(), H=()): return ('mv', i, tuple(E), tuple(S), tuple(P), tuple(N), tuple(H))
def esub(h, n, p): return ('esub', h, n, p)
def ssub(h, n, p): return ('ssub', h, n, p)


BOT = mu(0, svar(0))


def neg(a): return imp(a, BOT)


def _ids(t):
    return '(' + ' '.join(str(x) for x in t) + ')'


def show(t) -> str:
    k = t[0]
    if k in ('evar', 'svar', 'sym'):
        return f'({k} {t[1]})'
    if k in ('imp', 'app'):
        return f'({k} {show(t[1])} {show(t[2])})'
    if k in ('ex', 'mu'):
        return f'({k} {t[1]} {show(t[2])})'
    if k == 'mv':
        return f'(mv {t[1]} {_ids(t[2])} {_ids(t[3])} {_ids(t[4])} {_ids(t[5])} {_ids(t[6])})'
    if k in ('esub', 'ssub'):
        return f'({k} {show(t[1])} {t[2]} {show(t[3])})'
    raise ValueError(k)


def size(t) -> int:
    k = t[0]
    if k in ('evar', 'svar', 'sym', 'mv'):
        return 1
    if k in ('imp', 'app'):
        return 1 + size(t[1]) + size(t[2])
    if k in ('ex', 'mu'):
        return 1 + size(t[2])
    return 1 + size(t[1]) + size(t[3])


def parse(s: str):
    """parse the S-expression syntax produced by show() / the Rust harness"""
    pos = 0
    n = len(s)

    def ws():
        nonlocal pos
        while pos < n and s[pos] == ' ':
            pos += 1

    def word():
        nonlocal pos
        ws()
        st = pos
        while pos < n and s[pos] not in ' ()':
            pos += 1
        return s[st:pos]

    def ids():
        nonlocal pos
        ws()
        assert s[pos] == '(', s[pos:]
        pos += 1
        out = []
        while True:
            ws()
            if s[pos] == ')':
                pos += 1
                return tuple(out)
            out.append(int(word()))

    def term():
        nonlocal pos
        ws()
        assert s[pos] == '(', (s, pos)
        pos += 1
        k = word()
        if k in ('evar', 'svar', 'sym'):
            r = (k, int(word()))
        elif k in ('imp', 'app'):
            a = term()
            b = term()
            r = (k, a, b)
        elif k in ('ex', 'mu'):
            v = int(word())
            r = (k, v, term())
        elif k == 'mv':
            i = int(word())
            r = ('mv', i, ids(), ids(), ids(), ids(), ids())
        elif k in ('esub', 'ssub'):
            h = term()
            v = int(word())
            r = (k, h, v, term())
        else:
            raise ValueError(f'bad term head {k!r} in {s!r}')
        ws()
        assert s[pos] == ')', (s, pos)
        pos += 1
        return r

    t = term()
    ws()
    assert pos == n, (s, pos)
    return t


def parse_state(d: str):
    """'stack|memory|claims' dump -> (stack, memory, claims) with (kind, term) entries"""
    st, me, cl = d.split('|')

    def ents(x):
        if not x:
            return ()
        return tuple((e[0], parse(e[2:])) for e in x.split(';'))

    def pats(x):
        if not x:
            return ()
        return tuple(parse(e) for e in x.split(';'))

    return ents(st), ents(me), pats(cl)


def show_state(stack, memory, claims) -> str:
    return (';'.join(k + ':' + show(t) for k, t in stack) + '|' + ';'.join(k + ':' + show(t) for k, t in memory)
            + '|' + ';'.join(show(t) for t in claims))


# ------------------------------------------------------------------------------------------------
# judgements: the document's pseudo code, arm by arm
# ------------------------------------------------------------------------------------------------

@lru_cache(maxsize=1 << 18)
def e_fresh(t, x) -> bool:
    k = t[0]
    if k == 'evar':
        return t[1] != x
    if k in ('svar', 'sym'):
        return True
    if k in ('imp', 'app'):
        return e_fresh(t[1], x) and e_fresh(t[2], x)
    if k == 'ex':
        return t[1] == x or e_fresh(t[2], x)
    if k == 'mu':
        return e_fresh(t[2], x)
    if k == 'mv':
        return x in t[2]
    if k == 'esub':
        if x == t[2]:
            return e_fresh(t[3], x)
        return e_fresh(t[1], x) and e_fresh(t[3], x)
    if k == 'ssub':
        return e_fresh(t[1], x) and e_fresh(t[3], x)
    raise ValueError(k)


@lru_cache(maxsize=1 << 18)
def s_fresh(t, X) -> bool:
    k = t[0]
    if k == 'svar':
        return t[1] != X
    if k in ('evar', 'sym'):
        return True
    if k in ('imp', 'app'):
        return s_fresh(t[1], X) and s_fresh(t[2], X)
    if k == 'ex':
        return s_fresh(t[2], X)
    if k == 'mu':
        return t[1] == X or s_fresh(t[2], X)
    if k == 'mv':
        return X in t[3]
    if k == 'esub':
        return s_fresh(t[1], X) and s_fresh(t[3], X)
    if k == 'ssub':
        if X == t[2]:
            return s_fresh(t[3], X)
        return s_fresh(t[1], X) and s_fresh(t[3], X)
    raise ValueError(k)


@lru_cache(maxsize=1 << 18)
def positive(t, X) -> bool:
    k = t[0]
    if k in ('evar', 'svar', 'sym'):
        return True
    if k == 'imp':
        return negative(t[1], X) and positive(t[2], X)
    if k == 'app':
        return positive(t[1], X) and positive(t[2], X)
    if k == 'ex':
        return positive(t[2], X)
    if k == 'mu':
        return t[1] == X or positive(t[2], X)
    if k == 'mv':
        return X in t[4]
    if k == 'esub':
        return positive(t[1], X) and s_fresh(t[3], X)
    if k == 'ssub':
        pat, var, plug = t[1], t[2], t[3]
        pps = s_fresh(plug, X) or (positive(pat, var) and positive(plug, X)) or (negative(pat, var) and negative(plug, X))
        if X == var:
            return pps
        return positive(pat, X) and pps
    raise ValueError(k)


@lru_cache(maxsize=1 << 18)
def negative(t, X) -> bool:
    k = t[0]
    if k == 'svar':
        return t[1] != X
    if k in ('evar', 'sym'):
        return True
    if k == 'imp':
        return positive(t[1], X) and negative(t[2], X)
    if k == 'app':
        return negative(t[1], X) and negative(t[2], X)
    if k == 'ex':
        return negative(t[2], X)
    if k == 'mu':
        return t[1] == X or negative(t[2], X)
    if k == 'mv':
        return X in t[5]
    if k == 'esub':
        return negative(t[1], X) and s_fresh(t[3], X)
    if k == 'ssub':
        pat, var, plug = t[1], t[2], t[3]
        pns = s_fresh(plug, X) or (positive(pat, var) and negative(plug, X)) or (negative(pat, var) and positive(plug, X))
        if X == var:
            return pns
        return negative(pat, X) and pns
    raise ValueError(k)


def redundant(t) -> bool:
    if t[0] == 'esub':
        return t[3] == ('evar', t[2]) or e_fresh(t[1], t[2])
    if t[0] == 'ssub':
        return t[3] == ('svar', t[2]) or s_fresh(t[1], t[2])
    return False


@lru_cache(maxsize=1 << 18)
def norm(t):
    """remove redundant pending substitutions (semantically the identity), bottom-up"""
    k = t[0]
    if k in ('evar', 'svar', 'sym', 'mv'):
        return t
    if k in ('imp', 'app'):
        return (k, norm(t[1]), norm(t[2]))
    if k in ('ex', 'mu'):
        return (k, t[1], norm(t[2]))
    r = (k, norm(t[1]), t[2], norm(t[3]))
    if redundant(r):
        return r[1]
    return r


# ------------------------------------------------------------------------------------------------
# substitution and instantiation
# ------------------------------------------------------------------------------------------------

POLICIES = ('wrap', 'drop_mv', 'drop')


class Ctx:
    """per-step context: policy for redundant wrappers + over-strictness flag"""

    def __init__(self, policy: str):
        self.policy = policy
        self.may_reject = False


def _wrap(kind, head, var, plug, ctx: Ctx):
    r = (kind, head, var, plug)
    if ctx.policy == 'drop' and redundant(r):
        return head
    if ctx.policy == 'drop_mv' and head[0] == 'mv':
        if (kind == 'esub' and var in head[2]) or (kind == 'ssub' and var in head[3]):
            return head
    return r


def subst_e(t, x, psi, ctx: Ctx):
    k = t[0]
    if k == 'evar':
        return psi if t[1] == x else t
    if k in ('svar', 'sym'):
        return t
    if k in ('imp', 'app'):
        return (k, subst_e(t[1], x, psi, ctx), subst_e(t[2], x, psi, ctx))
    if k in ('mv', 'esub', 'ssub'):
        return _wrap('esub', t, x, psi, ctx)
    if k == 'ex':
        if t[1] == x:
            return t
        if not e_fresh(psi, t[1]):
            if not e_fresh(t[2], x):
                raise Reject('CAPTURE', f'evar {t[1]} of plug captured by exists')
            ctx.may_reject = True
        return ('ex', t[1], subst_e(t[2], x, psi, ctx))
    if k == 'mu':
        if not s_fresh(psi, t[1]):
            if not e_fresh(t[2], x):
                raise Reject('CAPTURE', f'svar {t[1]} of plug captured by mu')
            ctx.may_reject = True
        return ('mu', t[1], subst_e(t[2], x, psi, ctx))
    raise ValueError(k)


def subst_s(t, X, psi, ctx: Ctx):
    k = t[0]
    if k == 'svar':
        return psi if t[1] == X else t
    if k in ('evar', 'sym'):
        return t
    if k in ('imp', 'app'):
        return (k, subst_s(t[1], X, psi, ctx), subst_s(t[2], X, psi, ctx))
    if k in ('mv', 'esub', 'ssub'):
        return _wrap('ssub', t, X, psi, ctx)
    if k == 'mu':
        if t[1] == X:
            return t
        if not s_fresh(psi, t[1]):
            if not s_fresh(t[2], X):
                raise Reject('CAPTURE', f'svar {t[1]} of plug captured by mu')
            ctx.may_reject = True
        return ('mu', t[1], subst_s(t[2], X, psi, ctx))
    if k == 'ex':
        if not e_fresh(psi, t[1]):
            if not s_fresh(t[2], X):
                raise Reject('CAPTURE', f'evar {t[1]} of plug captured by exists')
            ctx.may_reject = True
        return ('ex', t[1], subst_s(t[2], X, psi, ctx))
    raise ValueError(k)


def instantiate(t, ids, plugs, ctx: Ctx):
    """simultaneous instantiation; first occurrence of an id wins"""
    k = t[0]
    if k in ('evar', 'svar', 'sym'):
        return t
    if k == 'mv':
        if t[1] in ids:
            plug = plugs[ids.index(t[1])]
            for x in t[2]:
                if not e_fresh(plug, x):
                    raise Reject('CONSTRAINT_VIOLATED', f'mv {t[1]} e_fresh {x}')
            for X in t[3]:
                if not s_fresh(plug, X):
                    raise Reject('CONSTRAINT_VIOLATED', f'mv {t[1]} s_fresh {X}')
            for X in t[4]:
                if not positive(plug, X):
                    raise Reject('CONSTRAINT_VIOLATED', f'mv {t[1]} positive {X}')
            for X in t[5]:
                if not negative(plug, X):
                    raise Reject('CONSTRAINT_VIOLATED', f'mv {t[1]} negative {X}')
            if t[6]:
                raise Unspecified('app_ctx_holes constraint at instantiation (judgement not defined in the document)')
            return plug
        return t
    if k in ('imp', 'app'):
        return (k, instantiate(t[1], ids, plugs, ctx), instantiate(t[2], ids, plugs, ctx))
    if k in ('ex', 'mu'):
        return (k, t[1], instantiate(t[2], ids, plugs, ctx))
    if k == 'esub':
        h = instantiate(t[1], ids, plugs, ctx)
        p = instantiate(t[3], ids, plugs, ctx)
        if h == t[1] and p == t[3]:
            return t
        return subst_e(h, t[2], p, ctx)
    if k == 'ssub':
        h = instantiate(t[1], ids, plugs, ctx)
        p = instantiate(t[3], ids, plugs, ctx)
        if h == t[1] and p == t[3]:
            return t
        return subst_s(h, t[2], p, ctx)
    raise ValueError(k)


# ------------------------------------------------------------------------------------------------
# the machine
# ------------------------------------------------------------------------------------------------

PHI0, PHI1, PHI2 = mv(0), mv(1), mv(2)
PROP1 = imp(PHI0, imp(PHI1, PHI0))
PROP2 = imp(imp(PHI0, imp(PHI1, PHI2)), imp(imp(PHI0, PHI1), imp(PHI0, PHI2)))
PROP3 = imp(neg(neg(PHI0)), PHI0)
QUANTIFIER = imp(esub(PHI0, 0, evar(1)), ex(0, PHI0))
EXISTENCE = ex(0, evar(0))

OP = dict(EVar=2, SVar=3, Symbol=4, Implies=5, App=6, Mu=7, Exists=8, MetaVar=9, ESubst=10, SSubst=11,
          Prop1=12, Prop2=13, Prop3=14, Quantifier=15, PropagationOr=16, PropagationExists=17, PreFixpoint=18,
          Existence=19, Singleton=20, ModusPonens=21, Generalization=22, Frame=23, Substitution=24,
          KnasterTarski=25, Instantiate=26, Pop=27, Save=28, Load=29, Publish=30, CleanMetaVar=137)
OPNAME = {v: k for k, v in OP.items()}
UNSPEC_OPS = {16, 17, 18, 20, 23, 25}

GAMMA, CLAIM, PROOF = 0, 1, 2


class State:
    """immutable machine state"""
    __slots__ = ('stack', 'memory', 'claims', 'journal')

    def __init__(self, stack=(), memory=(), claims=(), journal=()):
        self.stack = stack
        self.memory = memory
        self.claims = claims
        self.journal = journal

    def dump(self) -> str:
        return show_state(self.stack, self.memory, self.claims)

    def ndump(self) -> str:
        return show_state(tuple((k, norm(t)) for k, t in self.stack), tuple((k, norm(t)) for k, t in self.memory),
                          tuple(norm(t) for t in self.claims))


def ndump_of(d: str) -> str:
    st, me, cl = parse_state(d)
    return show_state(tuple((k, norm(t)) for k, t in st), tuple((k, norm(t)) for k, t in me), tuple(norm(t) for t in cl))


def _pop(stack, kind=None):
    if not stack:
        raise Reject('STACK_UNDERFLOW')
    k, t = stack[-1]
    if kind is not None and k != kind:
        raise Reject('KIND_MISMATCH', f'expected {kind} got {k}')
    return stack[:-1], k, t


def exec_buffer(state: State, buf: bytes, phase: int, ctx: Ctx, trace=None) -> State:
    """run a whole buffer in one phase; raises Reject / Unspecified"""
    stack, memory, claims, journal = state.stack, state.memory, state.claims, state.journal
    i = 0
    n = len(buf)

    def byte(what='operand'):
        nonlocal i
        if i >= n:
            raise Reject('TRUNCATED', what)
        b = buf[i]
        i += 1
        return b

    def idlist():
        ln = byte('list length')
        return tuple(byte('list element') for _ in range(ln))

    while i < n:
        op = buf[i]
        i += 1
        if op == 2:
            stack = stack + (('P', ('evar', byte())),)
        elif op == 3:
            stack = stack + (('P', ('svar', byte())),)
        elif op == 4:
            stack = stack + (('P', ('sym', byte())),)
        elif op == 137:
            stack = stack + (('P', mv(byte())),)
        elif op == 9:
            ident = byte()
            E, S, P, N, H = idlist(), idlist(), idlist(), idlist(), idlist()
            if set(H) & set(E):
                raise Reject('MV_ILLFORMED')
            stack = stack + (('P', ('mv', ident, E, S, P, N, H)),)
        elif op in (5, 6):
            stack, _, r = _pop(stack, 'P')
            stack, _, l = _pop(stack, 'P')
            stack = stack + (('P', ('imp' if op == 5 else 'app', l, r)),)
        elif op == 8:
            v = byte()
            stack, _, b = _pop(stack, 'P')
            stack = stack + (('P', ('ex', v, b)),)
        elif op == 7:
            v = byte()
            stack, _, b = _pop(stack, 'P')
            if not positive(b, v):
                raise Reject('MU_NOT_POSITIVE')
            stack = stack + (('P', ('mu', v, b)),)
        elif op in (10, 11):
            v = byte()
            stack, _, head = _pop(stack, 'P')
            stack, _, plug = _pop(stack, 'P')
            kind = 'esub' if op == 10 else 'ssub'
            if head[0] not in ('mv', 'esub', 'ssub'):
                raise Reject('SUBST_ILLHEADED')
            t = (kind, head, v, plug)
            if redundant(t):
                raise Reject('SUBST_REDUNDANT')
            stack = stack + (('P', t),)
        elif op == 12:
            stack = stack + (('T', PROP1),)
        elif op == 13:
            stack = stack + (('T', PROP2),)
        elif op == 14:
            stack = stack + (('T', PROP3),)
        elif op == 15:
            stack = stack + (('T', QUANTIFIER),)
        elif op == 19:
            stack = stack + (('T', EXISTENCE),)
        elif op == 21:
            stack, _, right = _pop(stack, 'T')
            stack, _, left = _pop(stack, 'T')
            if left[0] != 'imp':
                raise Reject('MP_NOT_IMPLICATION')
            if left[1] != right:
                raise Reject('MP_MISMATCH')
            stack = stack + (('T', left[2]),)
        elif op == 22:
            # operand is read after the pop in the checker; either order fails on the same inputs
            stack, _, t = _pop(stack, 'T')
            if t[0] != 'imp':
                raise Reject('GEN_NOT_IMPLICATION')
            x = byte()
            if not e_fresh(t[2], x):
                raise Reject('GEN_NOT_FRESH')
            stack = stack + (('T', imp(ex(x, t[1]), t[2])),)
        elif op == 24:
            X = byte()
            stack, _, thm = _pop(stack, 'T')
            stack, _, plug = _pop(stack, 'P')
            stack = stack + (('T', subst_s(thm, X, plug, ctx)),)
        elif op == 26:
            cnt = byte('instantiate count')
            stack, kind, meta = _pop(stack)
            ids = []
            plugs = []
            for _ in range(cnt):
                ids.append(byte('instantiate id'))
                stack, _, p = _pop(stack, 'P')
                plugs.append(p)
            stack = stack + ((kind, instantiate(meta, ids, plugs, ctx)),)
        elif op == 27:
            stack, _, _ = _pop(stack)
        elif op == 28:
            if not stack:
                raise Reject('STACK_UNDERFLOW')
            memory = memory + (stack[-1],)
        elif op == 29:
            idx = byte()
            if idx >= len(memory):
                raise Reject('BAD_INDEX')
            stack = stack + (memory[idx],)
        elif op == 30:
            if phase == GAMMA:
                stack, _, t = _pop(stack, 'P')
                memory = memory + (('T', t),)
                journal = journal + (('axiom', t),)
            elif phase == CLAIM:
                stack, _, t = _pop(stack, 'P')
                claims = claims + (t,)
                journal = journal + (('claim', t),)
            else:
                if not claims:
                    raise Reject('NO_CLAIM')
                c = claims[-1]
                claims = claims[:-1]
                stack, _, t = _pop(stack, 'T')
                if c != t:
                    raise Reject('CLAIM_MISMATCH')
                journal = journal + (('proved', t),)
        elif op in UNSPEC_OPS:
            raise Unspecified(f'opcode {op} ({OPNAME[op]}) has no semantics in the document')
        else:
            raise Reject('UNKNOWN_OPCODE', str(op))
        if trace is not None:
            trace.append((i, State(stack, memory, claims, journal)))
    return State(stack, memory, claims, journal)


def run3_policy(g: bytes, c: bytes, p: bytes, upto: int, policy: str):
    """returns ('ACCEPT', State, may_reject) | ('REJECT', reason) | ('UNSPEC', why)"""
    ctx = Ctx(policy)
    try:
        st = exec_buffer(State(), g, GAMMA, ctx)
        if upto >= 1:
            st = exec_buffer(State((), st.memory, st.claims, st.journal), c, CLAIM, ctx)
        if upto >= 2:
            st = exec_buffer(State((), st.memory, st.claims, st.journal), p, PROOF, ctx)
        return ('ACCEPT', st, ctx.may_reject)
    except Reject as r:
        if ctx.may_reject:
            # an earlier over-strict refusal was allowed: the run may already have stopped there
            return ('REJECT', r.reason, True)
        return ('REJECT', r.reason, False)
    except Unspecified as u:
        return ('UNSPEC', str(u))


def run3(g: bytes, c: bytes, p: bytes, upto: int = 2):
    """consensus over the normal-form policies.
    returns ('ACCEPT', ndump, State) | ('MAYREJECT', ndump, State) | ('REJECT', reason) | ('UNSPEC', why)
    ndump = dump with redundant pending substitutions removed."""
    res = [run3_policy(g, c, p, upto, pol) for pol in POLICIES]
    kinds = {r[0] for r in res}
    if 'UNSPEC' in kinds:
        return next(r for r in res if r[0] == 'UNSPEC')
    if kinds == {'REJECT'}:
        return ('REJECT', res[0][1])
    if kinds == {'ACCEPT'}:
        nds = {r[1].ndump() for r in res}
        if len(nds) != 1:
            return ('UNSPEC', 'normal form of redundant pending substitutions')
        if any(r[2] for r in res):
            return ('MAYREJECT', nds.pop(), res[0][1])
        return ('ACCEPT', nds.pop(), res[0][1])
    # policies disagree on acceptance: outcome depends on how redundant substitutions are represented
    return ('UNSPEC', 'normal form of redundant pending substitutions')


def verify(g: bytes, c: bytes, p: bytes):
    """full verdict including the final 'no claims left' check"""
    r = run3(g, c, p, 2)
    if r[0] in ('ACCEPT', 'MAYREJECT'):
        if r[2].claims:
            return ('REJECT', 'CLAIMS_LEFT')
    return r
