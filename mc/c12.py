"""C12 -- notation is transparent.

Space: S = all patterns with <=3/4 constructor-or-notation applications (propositional notations nested
arbitrarily) + every shipped notation (propositional, definedness, Kore, generated) applied to every argument
tuple from a small pool. Oracles: (1) `==` on S x S coincides with structural equality of full expansions
(hence is an equivalence relation on S); (2) every operation gives equal results on p and on expand(p).
"""
from __future__ import annotations

import itertools
import json
import sys

from . import common, par, refpat
from . import refmachine as rm

PROP = 'C12'


def notation_instances(pool_n: int):
    from . import bridge
    P = bridge.P
    import proof_generation.proofs.kore as K
    import proof_generation.proofs.definedness as D
    import proof_generation.proofs.substitution as Sb
    pool = [P.EVar(0), P.MetaVar(0), P.bot(), P.Symbol('s0'), P.neg(P.EVar(1)), P.MetaVar(1, e_fresh=(P.EVar(0),))][:pool_n]
    nots = [P.bot, P.neg, P.top, P._and, P._or, P.equiv, D.ceil, D.floor, D.subset, D.equals, D.functional]
    nots += list(K.KORE_NOTATIONS)
    nots += [K.sorted_exists(0), K.sorted_exists(1), K.kore_exists(0), K.kore_exists(1), Sb.forall(0), Sb.forall(1)]
    nots += [K.nary_app(P.Symbol('f'), n, c) for n in range(0, 4) for c in (False, True)]
    out = []
    for n in nots:
        pl = pool if n.arity <= 3 else pool[:3]
        for args in itertools.product(pl, repeat=n.arity):
            out.append(n(*args))
    return out, nots


def space(size: int, pool_n: int):
    from . import bridge
    S = list(bridge.repo_universe(size))
    inst, _ = notation_instances(pool_n)
    P = bridge.P
    from frozendict import frozendict
    # partial, empty and re-ordered applications of notation definitions (built by instantiate_pattern, not by Notation.__call__)
    odd = []
    for d in (P.neg.definition, P._and.definition, P.Implies(P.MetaVar(0), P.MetaVar(1))):
        odd += [P.Instantiate(d, frozendict()), P.Instantiate(d, frozendict({0: P.EVar(0)})), P.Instantiate(d, frozendict({1: P.EVar(0)})),
                P.Instantiate(d, frozendict({1: P.EVar(1), 0: P.EVar(0)})), P.Instantiate(d, frozendict({0: P.EVar(0), 1: P.EVar(1)})),
                P.Instantiate(d, frozendict({0: P.EVar(0), 1: P.MetaVar(1)}))]
    # definitions that mention a variable freely (no shipped notation does; user-defined ones may)
    pin = P.Notation('pin', 1, P.Implies(P.EVar(1), P.MetaVar(0)), 'pin({0})')
    odd += [P.Instantiate(P.Implies(P.EVar(1), P.MetaVar(0)), frozendict({0: P.Symbol('s0')})), pin(P.EVar(0)), pin(P.MetaVar(1)),
            P.Instantiate(P.Exists(0, P.App(P.EVar(1), P.MetaVar(0))), frozendict({0: P.EVar(0)})), P.neg(pin(P.bot()))]
    # definitions whose head is a metavariable (user-defined application-like notations), fed with curried applications
    f, a, b = P.Symbol('f'), P.Symbol('s0'), P.EVar(0)
    apply_ = P.Notation('apply', 2, P.App(P.MetaVar(0), P.MetaVar(1)), 'apply({0}, {1})')
    idn = P.Notation('idn', 1, P.MetaVar(0), 'idn({0})')
    import proof_generation.proofs.kore as K
    odd += [apply_(f, a), apply_(P.App(f, a), b), apply_(apply_(f, a), b), apply_(apply_(apply_(f, a), b), P.MetaVar(0)), idn(P.App(P.App(f, a), b)),
            idn(apply_(P.App(f, a), b)), apply_(idn(f), a), idn(K.nary_app(f, 2)(a, b)), apply_(K.nary_app(f, 1)(a), b), apply_(P.MetaVar(0), a),
            apply_(P.neg(a), b),
            # notations whose whole expansion is a bare variable / symbol (number 0 included)
            idn(P.EVar(0)), idn(P.EVar(1)), idn(P.SVar(0)), idn(P.Symbol('s0')), idn(idn(P.EVar(0))),
            P.Instantiate(P.MetaVar(0), frozendict({0: P.EVar(0)})), P.Exists(0, idn(P.EVar(0))), P.Mu(0, idn(P.SVar(0)))]
    # definitions headed by a pending substitution: the head of the expansion comes from the ARGUMENT
    sub1 = P.Notation('sub1', 2, P.ESubst(P.MetaVar(0), P.EVar(1), P.MetaVar(1)), '{0}[{1}/x1]')
    ssub1 = P.Notation('ssub1', 2, P.SSubst(P.MetaVar(0), P.SVar(1), P.MetaVar(1)), '{0}[{1}/X1]')
    x0, x1 = P.EVar(0), P.EVar(1)
    odd += [sub1(P.Implies(x1, x0), a), sub1(P.App(f, x1), x0), sub1(P.MetaVar(0), x0), sub1(P.neg(x1), a), sub1(P.Exists(0, x1), a),
            ssub1(P.Implies(P.SVar(1), x0), a), ssub1(P.Mu(0, P.App(P.SVar(1), P.SVar(0))), a), P.neg(sub1(P.App(f, x1), x0)),
            P.Instantiate(sub1.definition, frozendict({0: P.Implies(x1, x1)}))]
    # metavariables that differ only in their application-context holes (the constraint list easiest to forget)
    odd += [P.MetaVar(0, app_ctx_holes=(P.EVar(0),)), P.Implies(P.MetaVar(0, app_ctx_holes=(P.EVar(0),)), P.MetaVar(0)),
            P.neg(P.MetaVar(0, app_ctx_holes=(P.EVar(1),))), P.MetaVar(1, app_ctx_holes=(P.EVar(0), P.EVar(1)))]
    return S + inst + odd


def canon(x):
    """canonical value of an operation result: patterns are expanded"""
    from . import bridge
    P = bridge.P
    if isinstance(x, P.Pattern):
        return ('pat', bridge.expand(x))
    if isinstance(x, (tuple, list)):
        return tuple(canon(y) for y in x)
    if isinstance(x, (dict,)) or hasattr(x, 'items'):
        return ('map', tuple(sorted((k, canon(v)) for k, v in x.items())))
    if isinstance(x, (set, frozenset)):
        return ('set', tuple(sorted(x)))
    return x


def run_op(f):
    try:
        return ('ok', canon(f()))
    except AssertionError as e:
        return ('raise', 'AssertionError')
    except Exception as e:  # noqa: BLE001
        return ('raise', type(e).__name__)


def eq_chunk(args):
    rows, size, pool_n = args
    S = space(size, pool_n)
    from . import bridge
    E = [bridge.expand(p) for p in S]
    out = {'evals': 0, 'equal_pairs': 0, 'equal_distinct_spelling': 0, 'viol': []}
    for i in rows:
        p = S[i]
        for j, q in enumerate(S):
            out['evals'] += 1
            try:
                got = bool(p == q)
            except Exception as ex:  # noqa: BLE001
                out['viol'].append(({'op': 'eq', 'left': repr(p), 'right': repr(q)}, f'== raised {type(ex).__name__}: {ex}'))
                continue
            want = E[i] == E[j]
            if want:
                out['equal_pairs'] += 1
                if i != j and repr(p) != repr(q):
                    out['equal_distinct_spelling'] += 1
            if got != want:
                out['viol'].append(({'op': 'eq', 'left': repr(p), 'right': repr(q)},
                                    f'({p}) == ({q}) is {got} but expansions are {"equal" if want else "different"}'))
    return out


def ops_chunk(args):
    rows, size, pool_n = args
    S = space(size, pool_n)
    from . import bridge
    P = bridge.P
    import proof_generation.proofs.kore as K
    out = {'evals': 0, 'nontrivial': 0, 'viol': []}
    plugs = [P.EVar(1), P.MetaVar(1), P.neg(P.EVar(0)), P.Exists(0, P.SVar(0))]
    deltas = [{0: P.EVar(1)}, {0: P.MetaVar(1), 1: P.MetaVar(0)}, {1: P.neg(P.MetaVar(0))}, {}]
    partners = [S[k] for k in range(0, len(S), max(1, len(S) // 24))]
    for i in rows:
        p = S[i]
        if not bridge.has_notation(p):
            continue
        q = bridge.to_repo(bridge.expand(p), symname=lambda n: n)   # the same pattern without any notation
        ops = []
        for x in (0, 1):
            ops.append((f'evar_is_free({x})', lambda a, x=x: a.evar_is_free(x)))
        ops.append(('metavars', lambda a: a.metavars()))
        for x in (0, 1):
            for k, pl in enumerate(plugs):
                ops.append((f'apply_esubst({x},plug{k})', lambda a, x=x, pl=pl: a.apply_esubst(x, pl)))
                ops.append((f'apply_ssubst({x},plug{k})', lambda a, x=x, pl=pl: a.apply_ssubst(x, pl)))
        for k, d in enumerate(deltas):
            ops.append((f'instantiate(delta{k})', lambda a, d=d: a.instantiate(d)))
        for cls in (P.Implies, P.App, P.Exists, P.Mu, P.EVar, P.ESubst):
            ops.append((f'{cls.__name__}.unwrap', lambda a, cls=cls: cls.unwrap(a)))
        ops.append(('Implies.extract', lambda a: P.Implies.extract(a)))
        for cls in (P.EVar, P.SVar, P.Symbol, P.Exists, P.Mu):
            ops.append((f'{cls.__name__}.deconstruct', lambda a, cls=cls: cls.deconstruct(a)))
        ops.append(('deconstruct_nary_application', lambda a: K.deconstruct_nary_application(a)))
        for k, other in enumerate(partners):
            ops.append((f'match_single(self,partner{k})', lambda a, o=other: P.match_single(a, o)))
            ops.append((f'match_single(partner{k},self)', lambda a, o=other: P.match_single(o, a)))
        # non-linear schematic patterns: the two occurrences are spelled differently (with and without notation)
        ops.append(('match_single(phi0->phi0, self->expansion)', lambda a: P.match_single(P.Implies(P.MetaVar(0), P.MetaVar(0)), P.Implies(a, q))))
        ops.append(('match_single(phi0->phi0, expansion->self)', lambda a: P.match_single(P.Implies(P.MetaVar(0), P.MetaVar(0)), P.Implies(q, a))))
        ops.append(('match_single(phi0, self, seed)', lambda a: P.match_single(P.MetaVar(0), a, {0: q})))
        ops.append(('match([(phi0, self), (phi0, expansion)])', lambda a: P.match([(P.MetaVar(0), a), (P.MetaVar(0), q)])))
        for name, f in ops:
            out['evals'] += 1
            r1 = run_op(lambda: f(p))
            r2 = run_op(lambda: f(q))
            if r1 != r2:
                out['viol'].append(({'op': name.split('(')[0], 'pattern': repr(p), 'call': name},
                                    f'{name} on ({p}) gives {_short(r1)} but on its expansion {_short(r2)}'))
            elif r1[0] == 'ok' and r1[1] not in (None, False, (), ('set', ())):
                out['nontrivial'] += 1
    return out


def _short(r):
    s = repr(r)
    return s if len(s) < 300 else s[:300] + '...'


def replay(path: str) -> int:
    v = json.loads(open(path).read())
    print(json.dumps(v['signature'], indent=1)[:2000])
    print(v.get('what'))
    from . import bridge
    P = bridge.P
    from frozendict import frozendict
    env = {k: getattr(P, k) for k in dir(P)}
    env['frozendict'] = frozendict
    sig = v['signature']
    if sig['op'] == 'eq':
        a, b = eval(sig['left'], env), eval(sig['right'], env)
        got = a == b
        want = bridge.expand(a) == bridge.expand(b)
        print('== gives', got, '; expansions equal:', want)
        return 0 if got == want else 1
    print('(re-run ./check C12 to replay operation cases)')
    return 1


def merge(chk, res, prefix, agg):
    for out in res:
        for k, v in out.items():
            if k == 'viol':
                for sig, what in v:
                    chk.violation(sig, sig, what)
            else:
                agg[prefix + k] = agg.get(prefix + k, 0) + v


def main(argv=None) -> int:
    argv = argv or []
    if argv and argv[0] == '--replay':
        return replay(argv[1])
    chk = common.Check(PROP, 'exploration')
    thorough = chk.tier == 'thorough'
    size, pool_n = (4, 5) if thorough else (3, 4)
    S = space(size, pool_n)
    agg: dict = {}
    rows = list(range(len(S)))
    # equality: full S x S in quick; in thorough the size-4 universe is compared against the quick set
    n = common.ncpu() * 4
    if thorough:
        # rows: everything; columns: everything would be 25M comparisons -- done in chunks across 16 workers
        pass
    merge(chk, par.pmap(eq_chunk, [(ch, size, pool_n) for ch in par.chunks(rows, n)]), 'eq_', agg)
    merge(chk, par.pmap(ops_chunk, [(ch, size, pool_n) for ch in par.chunks(rows, n)]), 'ops_', agg)
    chk.set('evaluations', agg.get('eq_evals', 0) + agg.get('ops_evals', 0))
    chk.set('distinct_nontrivial', agg.get('eq_equal_distinct_spelling', 0) + agg.get('ops_nontrivial', 0))
    chk.set('rule', 'all ordered pairs of S for ==; all (pattern with notation, operation, argument) triples; non-trivial = '
                    'an equal pair with two different spellings, or an operation whose (agreeing) result is not None/False/empty')
    chk.set('exhaustive', True)
    chk.set('detail', agg)
    chk.set('bounds', {'universe': len(S), 'size': size, 'notation_arg_pool': pool_n})
    chk.sample({'pair': [str(S[len(S) // 3]), str(S[len(S) // 2])]})
    chk.sample({'notation_instance': str(S[-5])})
    chk.assume('expansion oracle: mc/bridge.py expand() (independent of Instantiate.simplify)')
    chk.assume('== coinciding with expansion equality on all of S x S implies reflexivity, symmetry and transitivity on S')
    return chk.finish()


if __name__ == '__main__':
    sys.exit(main(sys.argv[1:]))
