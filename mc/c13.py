"""C13 -- matching is sound and complete.

Space: (pattern, instance) pairs from S x S (S as in C12) with three seeds (none / one binding / conflicting
binding); for completeness every substitution-free pattern x every map into a pool; equation lists of length
<= 3; every shipped notation x every argument tuple from a pool (matches / assert_matches, incl. arity 0).
"""
from __future__ import annotations

import itertools
import json
import sys

from . import common, par, refpat
from . import refmachine as rm
from .c12 import notation_instances

PROP = 'C13'


def ref_match(p, q, b: dict):
    """reference first-order matcher on expanded tuple terms; returns extended binding, None (no match) or
    'unknown' when the pattern contains a pending substitution (no completeness claim there)"""
    k = p[0]
    if k == 'mv':
        if p[1] in b:
            return b if b[p[1]] == q else None
        nb = dict(b)
        nb[p[1]] = q
        return nb
    if k in ('esub', 'ssub'):
        return 'unknown'
    if k != q[0]:
        return None
    if k in ('evar', 'svar', 'sym'):
        return b if p[1] == q[1] else None
    if k in ('imp', 'app'):
        r = ref_match(p[1], q[1], b)
        if r is None or r == 'unknown':
            return r
        return ref_match(p[2], q[2], r)
    if k in ('ex', 'mu'):
        if p[1] != q[1]:
            return None
        return ref_match(p[2], q[2], b)
    raise ValueError(k)


def has_subst(t) -> bool:
    k = t[0]
    if k in ('esub', 'ssub'):
        return True
    if k in ('imp', 'app'):
        return has_subst(t[1]) or has_subst(t[2])
    if k in ('ex', 'mu'):
        return has_subst(t[2])
    return False


def universe(size):
    from . import bridge
    P = bridge.P
    S = list(bridge.repo_universe(size))
    S += [P.MetaVar(2), P.Implies(P.MetaVar(0), P.MetaVar(0)), P._and(P.MetaVar(0), P.MetaVar(0)),
          P.Implies(P.MetaVar(0), P.Implies(P.MetaVar(1), P.MetaVar(0))), P.Exists(0, P.Implies(P.MetaVar(0), P.MetaVar(1))),
          P.ESubst(P.MetaVar(0), P.EVar(0), P.EVar(1)), P.Implies(P.ESubst(P.MetaVar(0), P.EVar(0), P.EVar(1)), P.MetaVar(1)),
          P.Implies(P.EVar(0), P.EVar(0)), P.Implies(P.EVar(1), P.EVar(0)),
          P.Implies(P.neg(P.EVar(0)), P.neg(P.EVar(0))), P.Implies(P.EVar(0), P.Implies(P.EVar(1), P.EVar(0)))]
    # implications / applications hidden behind definitions headed by a metavariable or by a pending substitution
    from frozendict import frozendict
    idn = P.Notation('idn', 1, P.MetaVar(0), 'idn({0})')
    sub1 = P.Notation('sub1', 2, P.ESubst(P.MetaVar(0), P.EVar(1), P.MetaVar(1)), '{0}[{1}/x1]')
    a, b = P.EVar(0), P.Symbol('s0')
    S += [P.Instantiate(P.MetaVar(2), frozendict({2: P.Implies(a, b)})), idn(P.Implies(a, P.MetaVar(0))), idn(P.App(b, a)),
          sub1(P.App(P.EVar(1), a), b), sub1(P.Implies(P.EVar(1), P.MetaVar(0)), a), P.Implies(idn(P.Implies(a, b)), P.MetaVar(1))]
    # variables hidden behind a definition that expands to a bare variable (identity notation, nested, and a 0-ary alias), at
    # positions where the other side of the equation has the literal element / set variable -- and the written-out twins
    X0, X1 = P.SVar(0), P.SVar(1)
    alias_x0 = P.Notation('aliasX0', 0, X0, 'X0!')
    alias_e0 = P.Notation('aliase0', 0, a, 'x0!')
    for v, hid in ((X0, idn(X0)), (X0, idn(idn(X0))), (X0, alias_x0()), (X1, idn(X1)), (a, idn(a)), (a, alias_e0()), (P.EVar(1), idn(P.EVar(1)))):
        S += [P.App(b, hid), P.App(P.MetaVar(0), v)]
    S += [P.App(b, X0), P.App(b, a), P.Mu(0, P.App(b, idn(X0))), P.Mu(0, P.App(b, X0)), P.Mu(0, P.App(P.MetaVar(0), X0)),
          P.Exists(0, P.App(b, idn(a))), P.Exists(0, P.App(b, a)), P.Exists(0, P.App(P.MetaVar(0), a))]
    return S


def pair_chunk(args):
    rows, size = args
    from . import bridge
    P = bridge.P
    S = universe(size)
    E = [bridge.expand(p) for p in S]
    out = {'evals': 0, 'matched': 0, 'matched_nonempty': 0, 'refused_by_seed': 0, 'viol': []}
    seedvals = [P.EVar(0), P.Symbol('zz')]
    for i in rows:
        p = S[i]
        ep = E[i]
        ids = sorted(refpat.mv_ids(ep))
        for j, q in enumerate(S):
            eq = E[j]
            seeds = [None]
            if ids:
                seeds.append({ids[0]: seedvals[0]})
                seeds.append({ids[-1]: seedvals[1]})
            for seed in seeds:
                out['evals'] += 1
                seed_copy = dict(seed) if seed is not None else None
                want = ref_match(ep, eq, {k: bridge.expand(v) for k, v in (seed or {}).items()})
                try:
                    r = P.match_single(p, q, dict(seed) if seed is not None else None)
                except Exception as ex:  # noqa: BLE001
                    out['viol'].append(({'op': 'match_single', 'pattern': repr(p), 'instance': repr(q), 'seed': repr(seed)},
                                        f'match_single raised {type(ex).__name__}: {ex}'))
                    continue
                if r is not None:
                    out['matched'] += 1
                    if r:
                        out['matched_nonempty'] += 1
                    # soundness
                    try:
                        back = bridge.expand(p.instantiate(r))
                    except Exception as ex:  # noqa: BLE001
                        back = ('raised', str(ex))
                    if back != eq:
                        out['viol'].append(({'op': 'match_sound', 'pattern': repr(p), 'instance': repr(q), 'seed': repr(seed)},
                                            f'match_single({p}, {q}, seed={seed}) = { {k: str(v) for k, v in r.items()} } but instantiating gives {back if isinstance(back[0], str) and back[0]=="raised" else rm.show(back)}'))
                        continue
                    if seed_copy:
                        for k, v in seed_copy.items():
                            if k not in r or bridge.expand(r[k]) != bridge.expand(v):
                                out['viol'].append(({'op': 'match_seed', 'pattern': repr(p), 'instance': repr(q), 'seed': repr(seed)},
                                                    f'pre-supplied binding {k} changed or dropped'))
                    if want is None:
                        out['viol'].append(({'op': 'match_sound', 'pattern': repr(p), 'instance': repr(q), 'seed': repr(seed)},
                                            f'match_single({p}, {q}, seed={seed}) succeeded but the reference matcher finds no match'))
                else:
                    if want not in (None, 'unknown'):
                        # completeness: the reference found a matcher
                        out['viol'].append(({'op': 'match_complete', 'pattern': repr(p), 'instance': repr(q), 'seed': repr(seed)},
                                            f'match_single({p}, {q}, seed={seed}) failed but { {k: rm.show(v) for k, v in want.items()} } is a matcher'))
                    elif seed is not None:
                        out['refused_by_seed'] += 1
    return out


def complete_chunk(args):
    rows, size = args
    from . import bridge
    P = bridge.P
    S = universe(size)
    pool = [P.EVar(0), P.EVar(1), P.bot(), P.MetaVar(1), P.neg(P.MetaVar(0)), P.Exists(0, P.EVar(0)),
            P._and(P.EVar(0), P.MetaVar(2)), P.ESubst(P.MetaVar(1), P.EVar(0), P.EVar(1)), P.Symbol('s0')]
    out = {'evals': 0, 'empty_solution': 0, 'nonempty': 0, 'viol': []}
    for i in rows:
        p = S[i]
        ep = bridge.expand(p)
        if has_subst(ep):
            continue
        ids = sorted(refpat.mv_ids(ep))
        pl = pool if len(ids) <= 2 else pool[:5]
        for vals in itertools.product(pl, repeat=len(ids)):
            delta = dict(zip(ids, vals))
            out['evals'] += 1
            q = p.instantiate(delta) if delta else p
            try:
                r = P.match_single(p, q)
            except Exception as ex:  # noqa: BLE001
                r = ex
            if r is None or isinstance(r, Exception):
                out['viol'].append(({'op': 'complete', 'pattern': repr(p), 'delta': repr(delta)},
                                    f'{q} is the instance of {p} under { {k: str(v) for k, v in delta.items()} } but match_single returns {r!r}'))
                continue
            if bridge.expand(p.instantiate(r)) != bridge.expand(q):
                out['viol'].append(({'op': 'complete', 'pattern': repr(p), 'delta': repr(delta)}, 'returned matcher does not rebuild the instance'))
                continue
            if not ids:
                out['empty_solution'] += 1
            else:
                out['nonempty'] += 1
            # list form: one equation, and the same equation twice, must succeed as well (also with the empty solution)
            for eqs in ([(p, q)], [(p, q), (p, q)]):
                try:
                    m = P.match(eqs)
                except Exception as ex:  # noqa: BLE001
                    m = ex
                if m is None or isinstance(m, Exception):
                    out['viol'].append(({'op': 'match_list', 'pattern': repr(p), 'delta': repr(delta), 'n': len(eqs)},
                                        f'match({[(str(a), str(b)) for a, b in eqs]}) returns {m!r} although { {k: str(v) for k, v in delta.items()} } solves it'))
                    break
    return out


def list_chunk(args):
    rows = args
    from . import bridge
    P = bridge.P
    a, b = P.MetaVar(0), P.MetaVar(1)
    x, y, s = P.EVar(0), P.EVar(1), P.Symbol('s0')
    eqpool = [(a, x), (a, y), (b, x), (P.Implies(a, b), P.Implies(x, y)), (P.Implies(a, a), P.Implies(x, y)),
              (x, x), (x, y), (P.neg(a), P.neg(s)), (P._and(a, b), P._and(y, y)), (s, s), (P.Implies(a, b), x),
              (P.bot(), P.bot()), (P.Exists(0, a), P.Exists(0, y)), (P.Exists(0, a), P.Exists(1, y)),
              (a, a), (a, b), (b, a), (P.Implies(a, b), P.Implies(a, b)), (P.App(b, a), P.App(s, a))]
    lists = [[]]
    for n in (1, 2, 3):
        lists += [list(t) for t in itertools.product(range(len(eqpool)), repeat=n)]
    out = {'evals': 0, 'solvable': 0, 'solvable_empty': 0, 'viol': []}
    for li in rows:
        idx = lists[li]
        eqs = [eqpool[k] for k in idx]
        out['evals'] += 1
        want: dict | None = {}
        for p, q in eqs:
            want = ref_match(bridge.expand(p), bridge.expand(q), want)
            if want is None:
                break
        try:
            got = P.match(list(eqs))
        except Exception as ex:  # noqa: BLE001
            out['viol'].append(({'op': 'match_list', 'equations': repr(eqs)}, f'match raised {type(ex).__name__}: {ex}'))
            continue
        if want is not None:
            out['solvable'] += 1
            if not want:
                out['solvable_empty'] += 1
        g = None if got is None else {k: bridge.expand(v) for k, v in got.items()}
        if g != want:
            out['viol'].append(({'op': 'match_list', 'equations': repr(eqs)},
                                f'match({[(str(p), str(q)) for p, q in eqs]}) = {None if got is None else {k: str(v) for k, v in got.items()}} expected {None if want is None else {k: rm.show(v) for k, v in want.items()}}'))
    return out, len(lists)


def nary_probe():
    """deconstruct_nary_application on applications written with notations whose head is a parameter: head and arguments rebuild
    the application"""
    from . import bridge
    P = bridge.P
    import proof_generation.proofs.kore as K
    out = []
    f, a, b = P.Symbol('f'), P.Symbol('s0'), P.EVar(0)
    apply_ = P.Notation('apply', 2, P.App(P.MetaVar(0), P.MetaVar(1)), 'apply({0}, {1})')
    idn = P.Notation('idn', 1, P.MetaVar(0), 'idn({0})')
    cases = [apply_(f, a), apply_(P.App(f, a), b), apply_(apply_(f, a), b), idn(P.App(P.App(f, a), b)), apply_(idn(f), a),
             K.nary_app(f, 2)(a, b), apply_(K.nary_app(f, 1)(a), b), idn(K.nary_app(f, 3)(a, b, a))]
    for x in cases:
        try:
            head, args = K.deconstruct_nary_application(x)
            rebuilt = head
            for arg in args:
                rebuilt = P.App(rebuilt, arg)
            hd = bridge.expand(head)
            if bridge.expand(rebuilt) != bridge.expand(x) or hd[0] == 'app':
                out.append(({'op': 'deconstruct_nary_application'}, f'deconstruct_nary_application({x}) = ({head}, {args}): does not rebuild the application with an atomic head'))
        except Exception as ex:  # noqa: BLE001
            out.append(({'op': 'deconstruct_nary_application'}, f'deconstruct_nary_application({x}) raised {type(ex).__name__}'))
    return out


def notation_chunk(args):
    rows, pool_n = args
    from . import bridge
    P = bridge.P
    inst, nots = notation_instances(pool_n)
    out = {'evals': 0, 'arity0': 0, 'viol': []}
    if rows and rows[0] == 0:
        out['viol'] += nary_probe()
    # instances carry no back pointer to their notation: recompute the owning notation by definition identity
    for i in rows:
        app = inst[i]
        owner = [n for n in nots if n.definition is app.pattern and n.arity == len(app.inst)]
        for n in owner[:1]:
            out['evals'] += 1
            for fname in ('matches', 'assert_matches'):
                try:
                    r = getattr(n, fname)(app)
                except Exception as ex:  # noqa: BLE001
                    out['viol'].append(({'op': fname, 'notation': n.label, 'arity': n.arity, 'args': repr(tuple(app.inst.values()))},
                                        f'{n.label}.{fname}({app}) raised {type(ex).__name__}: {str(ex)[:100]}'))
                    continue
                if r is None:
                    out['viol'].append(({'op': fname, 'notation': n.label, 'arity': n.arity, 'args': repr(tuple(app.inst.values()))},
                                        f'{n.label}.{fname}({app}) does not recognise its own application'))
                    continue
                if bridge.expand(n(*r)) != bridge.expand(app):
                    out['viol'].append(({'op': fname, 'notation': n.label, 'arity': n.arity, 'args': repr(tuple(app.inst.values()))},
                                        f'{n.label}.{fname}({app}) returns arguments that rebuild a different pattern'))
                elif not (n(*r) == app) or not (app == n(*r)):
                    # "rebuild an EQUAL pattern": by the toolkit's own equality too (callers compare with ==)
                    out['viol'].append(({'op': fname + '/eq', 'notation': n.label, 'arity': n.arity, 'args': repr(tuple(app.inst.values()))},
                                        f'{n.label}.{fname}({app}) rebuilds a pattern with the same expansion that does not compare equal (==) to the application'))
            if n.arity >= 2:
                # the same application assembled with its argument map in another order (as instantiate_pattern callers and a
                # partial application completed later produce it)
                from frozendict import frozendict
                items = list(app.inst.items())
                variants = [P.Instantiate(app.pattern, frozendict(reversed(items)))]
                if not any(items[0][0] in v.metavars() for _, v in items[1:]):
                    # (completing a partial application instantiates the arguments already present as well, so this
                    #  is the same application only when they do not mention the completed parameter)
                    try:
                        variants.append(P.Instantiate(app.pattern, frozendict(items[1:])).instantiate(dict(items[:1])))
                    except Exception:  # noqa: BLE001
                        pass
                for v in variants:
                    try:
                        r = n.matches(v)
                    except Exception as ex:  # noqa: BLE001
                        out['viol'].append(({'op': 'matches/reordered', 'notation': n.label, 'arity': n.arity}, f'{n.label}.matches on a re-ordered application raised {type(ex).__name__}'))
                        continue
                    if r is None or bridge.expand(n(*r)) != bridge.expand(app):
                        out['viol'].append(({'op': 'matches/reordered', 'notation': n.label, 'arity': n.arity, 'args': repr(tuple(app.inst.values()))},
                                            f'{n.label}.matches({app}) with the argument map written as {list(v.inst.keys())} returns {r}: rebuilds a different pattern'))
            ignored = [k for k in range(n.arity) if k not in n.definition.metavars()]
            if ignored and n.arity >= 2:
                # a parameter the definition ignores: the schematic application matches an instance whatever sits there, and a
                # second occurrence of that metavariable elsewhere decides its value
                k = ignored[0]
                for other in (P.Symbol('other'), P.EVar(1)):
                    pat = P.Implies(n(*[P.MetaVar(i) for i in range(n.arity)]), P.MetaVar(k))
                    ins = P.Implies(app, other)
                    want = ref_match(bridge.expand(pat), bridge.expand(ins), {})
                    try:
                        got = P.match_single(pat, ins)
                    except Exception as ex:  # noqa: BLE001
                        got = f'raised {type(ex).__name__}'
                    g = None if got is None or isinstance(got, str) else {kk: bridge.expand(v) for kk, v in got.items()}
                    if isinstance(want, dict) and g != want:
                        out['viol'].append(({'op': 'match_ignored_parameter', 'notation': n.label, 'arity': n.arity},
                                            f'match_single({pat}, {ins}) = {got}; expected a solution (parameter {k} of {n.label} is ignored by its definition)'))
            if n.arity == 0:
                out['arity0'] += 1
            # the expansion (no notation at all) must be recognised too
            plain = bridge.to_repo(bridge.expand(app), symname=lambda s: s)
            try:
                r = n.matches(plain)
                if r is None or bridge.expand(n(*r)) != bridge.expand(app):
                    out['viol'].append(({'op': 'matches_expanded', 'notation': n.label, 'arity': n.arity, 'args': repr(tuple(app.inst.values()))},
                                        f'{n.label}.matches(expansion of {app}) = {r}'))
            except Exception as ex:  # noqa: BLE001
                out['viol'].append(({'op': 'matches_expanded', 'notation': n.label, 'arity': n.arity, 'args': repr(tuple(app.inst.values()))},
                                    f'raised {type(ex).__name__}'))
    return out


def merge(chk, res, prefix, agg):
    for out in res:
        for k, v in out.items():
            if k == 'viol':
                for sig, what in v:
                    chk.violation(sig, sig, what)
            else:
                agg[prefix + k] = agg.get(prefix + k, 0) + v


def replay(path: str) -> int:
    v = json.loads(open(path).read())
    print(json.dumps(v['signature'], indent=1)[:3000])
    print(v.get('what'))
    print('(re-run ./check C13 to replay)')
    return 1


def main(argv=None) -> int:
    argv = argv or []
    if argv and argv[0] == '--replay':
        return replay(argv[1])
    chk = common.Check(PROP, 'exploration')
    thorough = chk.tier == 'thorough'
    size = 3
    S = universe(size)
    agg: dict = {}
    n = common.ncpu() * 4
    rows = list(range(len(S)))
    merge(chk, par.pmap(pair_chunk, [(ch, size) for ch in par.chunks(rows, n)]), 'pairs_', agg)
    csize = 4 if thorough else 3
    crow = list(range(len(universe(csize))))
    merge(chk, par.pmap(complete_chunk, [(ch, csize) for ch in par.chunks(crow, n)]), 'complete_', agg)
    # equation lists
    nlists = 1 + 19 + 19 ** 2 + (19 ** 3 if thorough else 0)
    res = par.pmap(list_chunk, par.chunks(list(range(nlists)), n))
    merge(chk, [r[0] for r in res], 'lists_', agg)
    pool_n = 5 if thorough else 4
    inst, nots = notation_instances(pool_n)
    merge(chk, par.pmap(notation_chunk, [(ch, pool_n) for ch in par.chunks(list(range(len(inst))), n)]), 'notation_', agg)
    chk.set('evaluations', sum(v for k, v in agg.items() if k.endswith('_evals')))
    chk.set('distinct_nontrivial', agg.get('pairs_matched_nonempty', 0) + agg.get('complete_nonempty', 0)
            + agg.get('complete_empty_solution', 0) + agg.get('lists_solvable', 0) + agg.get('notation_evals', 0))
    chk.set('rule', 'all ordered (pattern, instance, seed) triples of S; all (substitution-free pattern, map) pairs; all equation '
                    'lists up to length 2/3 over 19 equations; all (notation, argument tuple). Non-trivial = matching succeeded with '
                    'a non-empty matcher / a constructed instance / a solvable list / a notation application')
    chk.set('exhaustive', True)
    chk.set('detail', agg)
    chk.set('bounds', {'universe': len(S), 'completeness_universe': len(crow), 'lists': nlists, 'notations': len(nots),
                       'notation_instances': len(inst)})
    chk.sample({'pair': [str(S[-8]), str(S[-3])]})
    chk.sample({'notation_instance': str(inst[len(inst) // 2])})
    chk.assume('reference matcher mc/c13.py ref_match on independently expanded terms; patterns with pending substitutions carry no completeness claim')
    return chk.finish()


if __name__ == '__main__':
    sys.exit(main(sys.argv[1:]))
