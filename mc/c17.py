"""C17 -- Metamath databases survive printing, re-parsing and slicing.

Space: databases built by construction (mc/mmgen.py prelude + lemma blocks: plain $p, $p under $e, $p under $d,
$p in a nested block; every subset of these; with/without a declared notation; three orders of the floating
hypotheses; several goal variants using the lemmas), every proof produced by the reference encoder and verified by
the reference verifier; plus every shipped benchmark for the printing part.
Oracle: parse(print(db)) == db and printing is idempotent; the slicing pipeline as main() drives it
(dependency_graph, transitive_closure, syntax_dependencies, slice_database) yields for every lemma a slice that
re-parses, declares everything it uses before use (reference verifier), keeps the floating hypotheses in their
original relative order, and against which the lemma's ORIGINAL compressed proof verifies with the original statement."""
from __future__ import annotations

import itertools
import json
import sys

from . import common, par, mmref, mmgen
from .mmgen import A, V, IMP, TH

PROP = 'C17'


def frames_of(st):
    v = mmref.verify_db(st)
    return v, {k: f for k, f in v.labels.items() if isinstance(f, mmref.Frame)}


def build_db(ft, lemmas, goal_variant):
    """-> statements (my model). lemmas: subset of ('L1','L2','L3','L4')"""
    st = mmgen.prelude(ft)
    _, fr = frames_of(st)
    ph0, ph1, c0 = V('ph0'), V('ph1'), A('c0')

    def mand(vars_in_order_of_use):
        return [f'ph{i}-is-pattern' for i in ft.float_order if f'ph{i}' in vars_in_order_of_use]

    if 'L1' in lemmas:
        pp = IMP(ph0, ph0)
        t = mmgen.apply('proof-rule-mp', fr, {'ph0': IMP(ph0, pp), 'ph1': pp}, [
            mmgen.apply('proof-rule-mp', fr, {'ph0': IMP(ph0, IMP(pp, ph0)), 'ph1': IMP(IMP(ph0, pp), pp)}, [
                mmgen.apply('proof-rule-prop-2', fr, {'ph0': ph0, 'ph1': pp, 'ph2': ph0}, []),
                mmgen.apply('proof-rule-prop-1', fr, {'ph0': ph0, 'ph1': pp}, [])]),
            mmgen.apply('proof-rule-prop-1', fr, {'ph0': ph0, 'ph1': ph0}, [])])
        st.append(('p', 'l1', (TH, pp), mmref.encode_compressed(t, mand(['ph0']), 'all')))
    if 'L2' in lemmas:
        t = mmgen.apply('rule-r', fr, {'ph0': ph0}, [('l2.0', [])])
        st.append(('block', [('e', 'l2.0', (TH, ph0)),
                             ('p', 'l2', (TH, A('\\f', ph0)), mmref.encode_compressed(t, mand(['ph0']) + ['l2.0'], 'none'))]))
    if 'L3' in lemmas:
        t = mmgen.apply('proof-rule-prop-1', fr, {'ph0': ph0, 'ph1': ph1}, [])
        st.append(('block', [('d', ('ph0', 'ph1')),
                             ('p', 'l3', (TH, IMP(ph0, IMP(ph1, ph0))), mmref.encode_compressed(t, mand(['ph0', 'ph1']), 'none'))]))
    if 'L4' in lemmas:
        t = mmgen.apply('rule-r', fr, {'ph0': ph1}, [('l4.0', [])])
        st.append(('block', [('block', [('e', 'l4.0', (TH, ph1)),
                                        ('p', 'l4', (TH, A('\\f', ph1)), mmref.encode_compressed(t, mand(['ph1']) + ['l4.0'], 'none'))])]))
    if 'L5' in lemmas:
        # a global $d over three variables, an axiom with its own $d, and a lemma that needs $d ph0 ph1 to use it
        st.append(('d', ('ph0', 'ph1', 'ph2')))
        st.append(('block', [('d', ('ph0', 'ph1')), ('a', 'ax-d', (TH, IMP(ph0, IMP(ph1, ph0))))]))
        _, fr5 = frames_of(st)
        t = mmgen.apply('ax-d', fr5, {'ph0': ph0, 'ph1': ph1}, [])
        st.append(('p', 'l5', (TH, IMP(ph0, IMP(ph1, ph0))), mmref.encode_compressed(t, mand(['ph0', 'ph1']), 'none')))
    if 'L6' in lemmas:
        # a $d that names a variable occurring nowhere else in the lemma
        t = mmgen.apply('proof-rule-prop-1', fr, {'ph0': ph0, 'ph1': ph1}, [])
        st.append(('block', [('d', ('ph0', 'ph2')),
                             ('p', 'l6', (TH, IMP(ph0, IMP(ph1, ph0))), mmref.encode_compressed(t, mand(['ph0', 'ph1']), 'none'))]))
    if 'L8' in lemmas and 'L2' in lemmas:
        # a lemma with an essential hypothesis that uses ANOTHER lemma with an essential hypothesis, twice
        _, fr8 = frames_of(st)
        t = mmgen.apply('l2', fr8, {'ph0': A('\\f', ph0)}, [mmgen.apply('l2', fr8, {'ph0': ph0}, [('l8.0', [])])])
        st.append(('block', [('e', 'l8.0', (TH, ph0)),
                             ('p', 'l8', (TH, A('\\f', A('\\f', ph0))), mmref.encode_compressed(t, mand(['ph0']) + ['l8.0'], 'all'))]))
    if 'L12' in lemmas:
        # nested blocks with one hypothesis in the OUTER block and one in the inner block, both used by the proof
        t = mmgen.apply('rule-s', fr, {'ph0': ph0, 'ph1': ph1}, [('l12.0', []), ('l12.1', [])])
        st.append(('block', [('e', 'l12.0', (TH, ph0)),
                             ('block', [('e', 'l12.1', (TH, IMP(ph0, ph1))),
                                        ('p', 'l12', (TH, A('\\g', ph1, ph0, c0)),
                                         mmref.encode_compressed(t, mand(['ph0', 'ph1']) + ['l12.0', 'l12.1'], 'none'))])]))
    if 'L13' in lemmas:
        # a lemma ABOUT a variable that is declared (with its floating hypothesis) after every axiom the proof cites:
        # mandatory floating hypotheses are never named in the label list
        if not any(x[0] == 'v' and 'ph3' in x[1] for x in st):
            st.append(('v', ('ph3',)))
            st.append(('f', 'ph3-is-pattern', '#Pattern', 'ph3'))
        _, fr13 = frames_of(st)
        q = V('ph3')
        qq = IMP(q, q)
        t = mmgen.apply('proof-rule-mp', fr13, {'ph0': IMP(q, qq), 'ph1': qq}, [
            mmgen.apply('proof-rule-mp', fr13, {'ph0': IMP(q, IMP(qq, q)), 'ph1': IMP(IMP(q, qq), qq)}, [
                mmgen.apply('proof-rule-prop-2', fr13, {'ph0': q, 'ph1': qq, 'ph2': q}, []),
                mmgen.apply('proof-rule-prop-1', fr13, {'ph0': q, 'ph1': qq}, [])]),
            mmgen.apply('proof-rule-prop-1', fr13, {'ph0': q, 'ph1': q}, [])])
        st.append(('p', 'l13', (TH, qq), mmref.encode_compressed(t, ['ph3-is-pattern'], 'all')))
    if 'L7' in lemmas:
        # the proof goes through a DUMMY variable (ph3 occurs in no statement of the lemma): its floating hypothesis is not
        # mandatory, so it is named in the proof's label list and the slice has to declare the variable for it
        # ph3 is used by no axiom either, so nothing but the label list brings it into the slice
        if not any(x[0] == 'v' and 'ph3' in x[1] for x in st):
            st.append(('v', ('ph3',)))
            st.append(('f', 'ph3-is-pattern', '#Pattern', 'ph3'))
        _, fr = frames_of(st)
        ph2 = V('ph3')
        x = IMP(ph2, ph0)
        t = mmgen.apply('proof-rule-mp', fr, {'ph0': IMP(ph0, x), 'ph1': IMP(ph0, ph0)}, [
            mmgen.apply('proof-rule-mp', fr, {'ph0': IMP(ph0, IMP(x, ph0)), 'ph1': IMP(IMP(ph0, x), IMP(ph0, ph0))}, [
                mmgen.apply('proof-rule-prop-2', fr, {'ph0': ph0, 'ph1': x, 'ph2': ph0}, []),
                mmgen.apply('proof-rule-prop-1', fr, {'ph0': ph0, 'ph1': x}, [])]),
            mmgen.apply('proof-rule-prop-1', fr, {'ph0': ph0, 'ph1': ph2}, [])])
        st.append(('p', 'l7', (TH, IMP(ph0, ph0)), mmref.encode_compressed(t, mand(['ph0']), 'all')))
    if 'L10' in lemmas:
        # the dummy variable ph3 is kept apart from ph0 by an OUTERMOST $d, and a proof step needs exactly that:
        # ax-dd may only be used on disjoint arguments
        if not any(x[0] == 'v' and 'ph3' in x[1] for x in st):
            st.append(('v', ('ph3',)))
            st.append(('f', 'ph3-is-pattern', '#Pattern', 'ph3'))
        st.append(('d', ('ph0', 'ph3')))
        st.append(('block', [('d', ('ph0', 'ph1')), ('a', 'ax-dd', (TH, IMP(ph0, IMP(ph1, ph0))))]))
        _, fr10 = frames_of(st)
        d3 = V('ph3')
        x = IMP(d3, ph0)
        t = mmgen.apply('proof-rule-mp', fr10, {'ph0': IMP(ph0, x), 'ph1': IMP(ph0, ph0)}, [
            mmgen.apply('proof-rule-mp', fr10, {'ph0': IMP(ph0, IMP(x, ph0)), 'ph1': IMP(IMP(ph0, x), IMP(ph0, ph0))}, [
                mmgen.apply('proof-rule-prop-2', fr10, {'ph0': ph0, 'ph1': x, 'ph2': ph0}, []),
                mmgen.apply('proof-rule-prop-1', fr10, {'ph0': ph0, 'ph1': x}, [])]),
            mmgen.apply('ax-dd', fr10, {'ph0': ph0, 'ph1': d3}, [])])
        st.append(('p', 'l10', (TH, IMP(ph0, ph0)), mmref.encode_compressed(t, mand(['ph0']), 'all')))
    if 'L14' in lemmas:
        # an outermost $d ph0 ph1 that a proof step needs, and a lemma with TWO $d statements of its own, ph0 in one and ph1 in
        # the other (neither holds both)
        st.append(('d', ('ph0', 'ph1')))
        st.append(('block', [('d', ('ph0', 'ph1')), ('a', 'ax-d14', (TH, IMP(ph0, IMP(ph1, ph0))))]))
        _, fr14 = frames_of(st)
        t = mmgen.apply('ax-d14', fr14, {'ph0': ph0, 'ph1': ph1}, [])
        st.append(('block', [('d', ('ph0', 'ph2')), ('d', ('ph1', 'ph2')),
                             ('p', 'l14', (TH, IMP(ph0, IMP(ph1, ph0))), mmref.encode_compressed(t, mand(['ph0', 'ph1']), 'none'))]))
    if 'L15' in lemmas:
        # a constant (\\k) without a constructor axiom that occurs ONLY inside essential hypotheses, below the second of two sibling
        # subterms with the same head symbol; the hypothesis is handed on verbatim, so no proof step ever builds \\k, and
        # nothing but the statements' own text brings it into the slice
        st.append(('c', ('\\k',)))
        hyp = IMP(IMP(ph0, ph0), IMP(ph1, A('\\k')))
        st.append(('block', [('e', 'ax-h.0', (TH, hyp)), ('a', 'ax-h', (TH, IMP(ph0, IMP(ph1, ph0))))]))
        st.append(('a', 'ax-k', (TH, IMP(IMP(c0, c0), IMP(A('c1'), A('\\k'))))))
        _, fr15 = frames_of(st)
        t = mmgen.apply('ax-h', fr15, {'ph0': ph0, 'ph1': ph1}, [('l15.0', [])])
        st.append(('block', [('e', 'l15.0', (TH, hyp)),
                             ('p', 'l15', (TH, IMP(ph0, IMP(ph1, ph0))), mmref.encode_compressed(t, mand(['ph0', 'ph1']) + ['l15.0'], 'none'))]))
    _, fr = frames_of(st)
    # goal variants
    if goal_variant == 'refl' and 'L1' in lemmas:
        target = IMP(c0, c0)
        t = mmgen.apply('l1', fr, {'ph0': c0}, [])
    elif goal_variant == 'rule' and 'L2' in lemmas:
        target = A('\\f', A('\\f', c0))
        t = mmgen.apply('l2', fr, {'ph0': A('\\f', c0)}, [('ax-b', [])])
    elif goal_variant == 'both' and 'L1' in lemmas and 'L2' in lemmas:
        target = A('\\f', IMP(c0, c0))
        t = mmgen.apply('l2', fr, {'ph0': IMP(c0, c0)}, [mmgen.apply('l1', fr, {'ph0': c0}, [])])
    elif goal_variant == 'dv' and 'L3' in lemmas:
        target = IMP(c0, IMP(A('c1'), c0))
        t = mmgen.apply('l3', fr, {'ph0': c0, 'ph1': A('c1')}, [])
    elif goal_variant == 'nested' and 'L4' in lemmas:
        target = A('\\f', A('\\f', c0))
        t = mmgen.apply('l4', fr, {'ph1': A('\\f', c0)}, [('ax-b', [])])
    elif goal_variant == 'notation' and ft.notation and 'L2' in lemmas:
        target = A('\\f', A('\\nt', A('c1')))
        t = mmgen.apply('l2', fr, {'ph0': A('\\nt', A('c1'))}, [('ax-n', [])])
    elif goal_variant == 'gdv' and 'L5' in lemmas:
        target = IMP(c0, IMP(A('c1'), c0))
        t = mmgen.apply('l5', fr, {'ph0': c0, 'ph1': A('c1')}, [])
    elif goal_variant == 'dvextra' and 'L6' in lemmas:
        target = IMP(c0, IMP(A('c1'), c0))
        t = mmgen.apply('l6', fr, {'ph0': c0, 'ph1': A('c1')}, [])
    elif goal_variant == 'dummy' and 'L7' in lemmas:
        target = IMP(c0, c0)
        t = mmgen.apply('l7', fr, {'ph0': c0}, [])
    elif goal_variant == 'chain' and 'L8' in lemmas and 'L2' in lemmas:
        target = A('\\f', A('\\f', A('\\f', c0)))
        t = mmgen.apply('l8', fr, {'ph0': A('\\f', c0)}, [('ax-b', [])])
    elif goal_variant == 'dummydv' and 'L10' in lemmas:
        target = IMP(c0, c0)
        t = mmgen.apply('l10', fr, {'ph0': c0}, [])
    elif goal_variant == 'outerhyp' and 'L12' in lemmas:
        fc = A('\\f', c0)
        target = A('\\g', IMP(c0, fc), fc, c0)
        t = mmgen.apply('l12', fr, {'ph0': fc, 'ph1': IMP(c0, fc)},
                        [('ax-b', []), mmgen.apply('proof-rule-prop-1', fr, {'ph0': fc, 'ph1': c0}, [])])
    elif goal_variant == 'latevar' and 'L13' in lemmas:
        target = IMP(c0, c0)
        t = mmgen.apply('l13', fr, {'ph3': c0}, [])
    elif goal_variant == 'twodv' and 'L14' in lemmas:
        target = IMP(c0, IMP(A('c1'), c0))
        t = mmgen.apply('l14', fr, {'ph0': c0, 'ph1': A('c1')}, [])
    elif goal_variant == 'hyponly' and 'L15' in lemmas:
        target = IMP(c0, IMP(A('c1'), c0))
        t = mmgen.apply('l15', fr, {'ph0': c0, 'ph1': A('c1')}, [('ax-k', [])])
    elif goal_variant == 'axiom':
        target = IMP(c0, A('c1'))
        t = ('ax-a', [])
    else:
        return None
    st.append(('p', 'goal', (TH, target), mmref.encode_compressed(t, [], 'none')))
    mmref.verify_db(st)
    return st


def specs(thorough):
    out = []
    orders = [(0, 1, 2), (2, 0, 1), (1, 2, 0)] if thorough else [(0, 1, 2), (1, 2, 0)]
    for o in orders:
        for notation in (False, True):
            for k in range(0, 12 if thorough else 4):
                for lem in itertools.combinations(('L1', 'L2', 'L3', 'L4', 'L5', 'L6', 'L7', 'L8', 'L10', 'L12', 'L13', 'L14', 'L15'), k):
                    for gv in ('refl', 'rule', 'both', 'dv', 'nested', 'notation', 'gdv', 'dvextra', 'dummy', 'dummydv', 'chain', 'outerhyp', 'latevar', 'twodv', 'hyponly', 'axiom'):
                        out.append((o, notation, lem, gv))
    return out


def flat_statements(st, acc=None, depth=0):
    acc = acc if acc is not None else []
    for s in st:
        if s[0] == 'block':
            flat_statements(s[1], acc, depth + 1)
        else:
            acc.append(s)
    return acc


def roundtrip(text, desc):
    from . import bridge  # noqa: F401
    from proof_generation.metamath.ast import Encoder
    from proof_generation.metamath.parser import parse_database
    viols = []
    try:
        db1 = parse_database(text)
        t2 = Encoder.encode_string(db1)
        db2 = parse_database(t2)
        t3 = Encoder.encode_string(db2)
    except Exception as ex:  # noqa: BLE001
        return [(dict(kind='print_parse_raises', exc=common.exc_family(ex)), desc, f'{desc}: print/parse raised {type(ex).__name__}: {str(ex)[:150]}')], None
    if db1 != db2:
        viols.append((dict(kind='reparse_differs'), desc, f'{desc}: parse(print(db)) differs from db'))
    if t2 != t3:
        viols.append((dict(kind='print_not_idempotent'), desc, f'{desc}: printing is not idempotent'))
    # the printed text must still be the same database for an independent reader
    try:
        a = mmref.parse_text(text)
        b = mmref.parse_text(t2)
        if a != b:
            viols.append((dict(kind='printed_text_differs'), desc, f'{desc}: the printed text reads as a different database'))
    except Exception as ex:  # noqa: BLE001
        viols.append((dict(kind='printed_text_unreadable'), desc, f'{desc}: {ex}'))
    return viols, db1


def slices(db, desc, orig_model):
    from proof_generation.metamath import metamath_extract_slice as X
    from proof_generation.metamath.ast import Encoder
    viols = []
    n = 0
    try:
        deps = X.dependency_graph(db)
        include = X.transitive_closure(deps, ['goal'])
        syntax_deps = X.syntax_dependencies(db)
        produced = list(X.slice_database(db, syntax_deps, include=set(include), exclude=set()))
    except Exception as ex:  # noqa: BLE001
        import traceback
        where = traceback.extract_tb(ex.__traceback__)[-1].name
        nested = 'L4' in desc.get('lemmas', ())
        return [(dict(kind='slicing_raises', exc=common.exc_family(ex), where=where, nested_block=nested), desc,
                 f'{desc}: slicing raised {type(ex).__name__} in {where}: {str(ex)[:120]}')], 0
    orig_flat = flat_statements(orig_model)
    orig_p = {s[1]: s for s in orig_flat if s[0] == 'p'}
    orig_float_order = [s[1] for s in orig_flat if s[0] == 'f']
    got_labels = {l for l, _ in produced}
    want = {l for l in include if l in orig_p}
    if got_labels != want:
        viols.append((dict(kind='slice_set'), desc, f'{desc}: slices produced for {sorted(got_labels)}, lemmas needed for goal {sorted(want)}'))
    for label, sl in produced:
        n += 1
        text = Encoder.encode_string(sl)
        try:
            from proof_generation.metamath.parser import parse_database
            if parse_database(text) != sl:
                viols.append((dict(kind='slice_reparse_differs', lemma_kind=_kind(label)), desc, f'{desc}: parse(print(slice for {label})) differs from the slice'))
        except Exception as ex:  # noqa: BLE001
            viols.append((dict(kind='slice_does_not_reparse', lemma_kind=_kind(label)), desc, f'{desc}: the slice for {label} does not re-parse: {str(ex)[:160]}'))
            continue
        try:
            model = mmref.parse_text(text)
            v = mmref.verify_db(model)
        except Exception as ex:  # noqa: BLE001
            viols.append((dict(kind='slice_invalid', lemma_kind=_kind(label)), desc, f'{desc}: slice for {label} is not self-contained / does not verify: {str(ex)[:160]}'))
            continue
        flat = flat_statements(model)
        sp = [s for s in flat if s[0] == 'p' and s[1] == label]
        if len(sp) != 1 or sp[0][2] != orig_p[label][2] or sp[0][3].split() != orig_p[label][3].split():
            viols.append((dict(kind='slice_statement'), desc, f'{desc}: slice for {label} does not carry the original statement and proof'))
        fl = [s[1] for s in flat if s[0] == 'f']
        if fl != [x for x in orig_float_order if x in fl]:
            viols.append((dict(kind='slice_float_order'), desc, f'{desc}: slice for {label} lists floating hypotheses as {fl}, original order {orig_float_order}'))
        if label not in v.results:
            viols.append((dict(kind='slice_unproved'), desc, f'{desc}: slice for {label} does not prove it'))
    return viols, n


def _kind(label):
    return {'l1': 'plain', 'l2': 'essential', 'l3': 'disjoint', 'l4': 'nested', 'l5': 'global_dv', 'l6': 'dv_extra_var', 'l7': 'dummy_var', 'l8': 'essential_uses_essential', 'l10': 'dummy_var_global_dv', 'l12': 'outer_block_hypothesis', 'l13': 'late_variable', 'l14': 'two_dv', 'l15': 'hypothesis_only_constant'}.get(label, 'goal')


def db_chunk(sps):
    out = {'evals': 0, 'databases': 0, 'slices': 0, 'viol': []}
    for o, notation, lem, gv in sps:
        out['evals'] += 1
        ft = mmgen.Features(float_order=tuple(o), notation=notation)
        st = build_db(ft, lem, gv)
        if st is None:
            continue
        out['databases'] += 1
        desc = {'float_order': list(o), 'notation': notation, 'lemmas': list(lem), 'goal': gv}
        text = mmref.write_db(st)
        v, db = roundtrip(text, desc)
        out['viol'] += v
        if db is not None:
            v, n = slices(db, desc, st)
            out['viol'] += v
            out['slices'] += n
    return out


def manyvars_chunk(args):
    """twelve variables declared in numeric order, a lemma over ph2 and ph10 (whose names sort the other way round)"""
    layout, swap = args
    out = {'evals': 1, 'databases': 1, 'slices': 0, 'viol': []}
    st, _ = mmgen.many_vars_database(layout, swap, with_lemma=True)
    mmref.verify_db(st)
    desc = {'family': 'twelve variables', 'layout': layout, 'swap': swap, 'lemmas': ['L11']}
    v, db = roundtrip(mmref.write_db(st), desc)
    out['viol'] += v
    if db is not None:
        v, n = slices(db, desc, st)
        out['viol'] += v
        out['slices'] += n
    return out


def shipped_chunk(name):
    path = common.REPO / 'generation' / 'mm-benchmarks' / name
    text = path.read_text()
    if not text.strip():
        return {'evals': 0, 'viol': []}
    v, _ = roundtrip(text, {'file': name})
    return {'evals': 1, 'viol': v}


# ------------------------------------------------------------------------------------------------
# histories: what was parsed before in the same process must not matter
# ------------------------------------------------------------------------------------------------

def history_texts():
    """four small databases whose token sets collide: a name that is a constant in one is a variable in another"""
    ft = mmgen.Features()
    t0 = mmref.write_db(build_db(ft, ('L1', 'L2'), 'both'))
    t2 = mmref.write_db(build_db(mmgen.Features(notation=True), ('L2', 'L3', 'L7'), 'dummy'))

    def swap(text, a, b):
        toks = text.split(' ')
        return ' '.join(x.replace(a, '\0').replace(b, a).replace('\0', b) for x in toks)
    out = [t0, swap(t0, 'c0', 'ph0'), t2, swap(t2, 'c1', 'ph1')]
    for pair in (('ph0', 'ph1'), ('ph0', 'ph2'), ('ph1', 'ph2')):
        st = mmgen.prelude(ft)
        st.append(('d', pair))
        _, fr = frames_of(st)
        p0, p1, p2 = V('ph0'), V('ph1'), V('ph2')
        tgt = IMP(IMP(p0, IMP(p1, p2)), IMP(IMP(p0, p1), IMP(p0, p2)))
        st.append(('p', 'l9', (TH, tgt), mmref.encode_compressed(mmgen.apply('proof-rule-prop-2', fr, {'ph0': p0, 'ph1': p1, 'ph2': p2}, []),
                                                               ['ph0-is-pattern', 'ph1-is-pattern', 'ph2-is-pattern'], 'none')))
        _, fr = frames_of(st)
        c0, c1 = A('c0'), A('c1')
        g = IMP(IMP(c0, IMP(c1, c0)), IMP(IMP(c0, c1), IMP(c0, c0)))
        st.append(('p', 'goal', (TH, g), mmref.encode_compressed(mmgen.apply('l9', fr, {'ph0': c0, 'ph1': c1, 'ph2': c0}, []), [], 'none')))
        mmref.verify_db(st)
        out.append(mmref.write_db(st))
    return out


def history_worker(seq):
    """one fresh process: parse / print / slice the databases of `seq` one after the other; a digest per position"""
    import hashlib
    from . import bridge  # noqa: F401
    from proof_generation.metamath import metamath_extract_slice as X
    from proof_generation.metamath.ast import Encoder
    from proof_generation.metamath.parser import parse_database
    texts = history_texts()
    out = []
    for i in seq:
        try:
            db = parse_database(texts[i])
            printed = Encoder.encode_string(db)
            deps = X.dependency_graph(db)
            include = X.transitive_closure(deps, ['goal'])
            sl = [(l, Encoder.encode_string(d)) for l, d in X.slice_database(db, X.syntax_dependencies(db), include=set(include), exclude=set())]
            blob = repr(db) + '\0' + printed + '\0' + repr(sl)
            out.append(hashlib.sha256(blob.encode()).hexdigest()[:16])
        except Exception as ex:  # noqa: BLE001
            out.append(f'raised {type(ex).__name__}: {str(ex)[:80]}')
    print(json.dumps(out))


def run_history(seq):
    import subprocess
    r = subprocess.run([sys.executable, '-m', 'mc.c17', '--history', json.dumps(list(seq))], capture_output=True, text=True, cwd=str(common.VERIF))
    if r.returncode != 0:
        return seq, None, r.stderr[-300:]
    return seq, json.loads(r.stdout.strip().splitlines()[-1]), None


def replay(path: str) -> int:
    v = json.loads(open(path).read())
    print(json.dumps(v['signature']), '\n', v.get('what'))
    c = v['replay'].get('case', {})
    if 'lemmas' in c:
        out = db_chunk([(tuple(c['float_order']), c['notation'], tuple(c['lemmas']), c['goal'])])
        for s, d, w in out['viol']:
            print('still failing:', w[:300])
        return 1 if out['viol'] else 0
    return 1


def main(argv=None) -> int:
    argv = argv or []
    if argv and argv[0] == '--replay':
        return replay(argv[1])
    if argv and argv[0] == '--history':
        history_worker(json.loads(argv[1]))
        return 0
    chk = common.Check(PROP, 'exploration')
    thorough = chk.tier == 'thorough'
    agg: dict = {}
    # every sequence of <=2/3 of the colliding databases, each sequence in a fresh process
    nt = len(history_texts())
    seqs = [t for k in range(1, (3 if thorough else 2) + 1) for t in itertools.product(range(nt), repeat=k)]
    alone = {}
    results = par.pmap(run_history, seqs)
    for seq, data, err in results:
        if len(seq) == 1 and data is not None:
            alone[seq[0]] = data[0]
    for seq, data, err in results:
        agg['history_runs'] = agg.get('history_runs', 0) + 1
        if data is None:
            chk.violation({'kind': 'history_worker_crash'}, {'sequence': list(seq)}, f'parsing the databases {list(seq)} in one process failed: {err}')
            continue
        for pos, (i, dg) in enumerate(zip(seq, data)):
            if dg != alone.get(i):
                chk.violation({'kind': 'history_changes_result', 'position': pos}, {'sequence': list(seq)},
                              f'database #{i} parsed/printed/sliced after {list(seq[:pos])} in the same process gives {dg}, alone {alone.get(i)}')
    sp = specs(thorough)
    for out in par.pmap(db_chunk, par.chunks(sp, common.ncpu() * 4)):
        for k, v in out.items():
            if k == 'viol':
                for sig, d, what in v:
                    chk.violation(sig, {'signature': sig, 'case': d}, what)
            else:
                agg[k] = agg.get(k, 0) + v
    for out in par.pmap(manyvars_chunk, [(layout, swap) for layout in ('none', 'all') for swap in (False, True)]):
        for k, v in out.items():
            if k == 'viol':
                for sig, d, what in v:
                    chk.violation(sig, {'signature': sig, 'case': d}, what)
            else:
                agg[k] = agg.get(k, 0) + v
    ship = sorted(p.name for p in (common.REPO / 'generation' / 'mm-benchmarks').glob('*.mm'))
    for out in par.pmap(shipped_chunk, ship):
        agg['shipped'] = agg.get('shipped', 0) + out['evals']
        for sig, d, what in out['viol']:
            chk.violation(sig, {'signature': sig, 'case': d}, what)
    chk.set('evaluations', agg.get('databases', 0) + agg.get('slices', 0) + agg.get('shipped', 0) + agg.get('history_runs', 0))
    chk.set('distinct_nontrivial', agg.get('databases', 0) + agg.get('slices', 0))
    chk.set('rule', 'every database of the construction grammar (float order x notation x lemma subset x goal variant that the subset '
                    'supports) and every slice the pipeline produces for it; all are distinct; all are non-trivial (each carries >= 1 compressed proof)')
    chk.set('exhaustive', True)
    chk.set('detail', agg)
    st = build_db(mmgen.Features(), ('L1', 'L2'), 'both')
    chk.sample({'database_tail': mmref.write_db(st)[-420:]})
    chk.assume('validity of proofs and self-containedness of slices are decided by the reference verifier mc/mmref.py')
    return chk.finish()


if __name__ == '__main__':
    sys.exit(main(sys.argv[1:]))
