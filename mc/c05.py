"""C05 -- the checker implements the documented machine.

Lock-step exploration of the real Rust `execute_instructions`/`verify` (harness E1) against the
reference machine E2 (refmachine.py):
  (1) BFS over instruction sequences from the full opcode alphabet, in each phase, states deduplicated;
  (2) every raw byte string up to a length bound over a 24-byte alphabet;
  (3) every prefix / single-byte replacement (256 values) / deletion / adjacent transposition of the
      shipped proof triples.
"""
from __future__ import annotations

import hashlib
import itertools
import sys

from . import common, par
from . import refmachine as rm

PROP = 'C05'


# ------------------------------------------------------------------------------------------------
# alphabet
# ------------------------------------------------------------------------------------------------

def mvbytes(ident, E=(), S=(), P=(), N=(), H=()):
    out = [9, ident]
    for lst in (E, S, P, N, H):
        out.append(len(lst))
        out.extend(lst)
    return bytes(out)


def alphabet(full: bool = True) -> list[bytes]:
    A: list[bytes] = []
    A += [bytes([2, 0]), bytes([2, 1]), bytes([3, 0]), bytes([3, 1]), bytes([4, 0])]
    A += [bytes([137, 0]), bytes([137, 1]), bytes([137, 2])]
    A += [mvbytes(0, E=(0,)), mvbytes(0, S=(0,)), mvbytes(0, P=(0,)), mvbytes(0, N=(0,)), mvbytes(0, H=(0,)),
          mvbytes(1, E=(0,)), mvbytes(0, E=(0,), H=(0,)), mvbytes(1, P=(0,), N=(0,)),
          mvbytes(0, E=(1, 0)), mvbytes(0, S=(1, 0)), mvbytes(1, P=(1, 0), N=(0, 1))]
    A += [bytes([5]), bytes([6]), bytes([8, 0]), bytes([8, 1]), bytes([7, 0]), bytes([7, 1])]
    A += [bytes([10, 0]), bytes([10, 1]), bytes([11, 0]), bytes([11, 1])]
    A += [bytes([12]), bytes([13]), bytes([14]), bytes([15]), bytes([19])]
    A += [bytes([21]), bytes([22, 0]), bytes([22, 1]), bytes([24, 0]), bytes([24, 1])]
    A += [bytes([26, 0]), bytes([26, 1, 0]), bytes([26, 1, 1]), bytes([26, 2, 0, 1]), bytes([26, 2, 1, 0]),
          bytes([26, 2, 0, 0])]
    A += [bytes([27]), bytes([28]), bytes([29, 0]), bytes([29, 1]), bytes([29, 2]), bytes([30])]
    if full:
        A += [bytes([16]), bytes([17]), bytes([18]), bytes([20]), bytes([23]), bytes([25])]
        A += [bytes([0]), bytes([1]), bytes([31]), bytes([255])]
    return A


ALPHA = alphabet()
# rule-centred alphabet for a deeper second search
RULE_ALPHA = [bytes([2, 0]), bytes([2, 1]), bytes([3, 0]), bytes([137, 0]), bytes([137, 1]), mvbytes(0, E=(0,)), mvbytes(0, N=(0,)),
              mvbytes(1, E=(1, 0)),
              bytes([5]), bytes([8, 0]), bytes([8, 1]), bytes([7, 0]), bytes([7, 1]), bytes([10, 0]), bytes([11, 0]),
              bytes([12]), bytes([13]), bytes([14]), bytes([15]), bytes([19]),
              bytes([21]), bytes([22, 0]), bytes([22, 1]), bytes([24, 0]), bytes([26, 1, 0]), bytes([26, 1, 1]), bytes([26, 2, 0, 1]),
              bytes([27]), bytes([28]), bytes([29, 0]), bytes([30])]
ALPHABETS = {'full': ALPHA, 'rule': RULE_ALPHA}

# seeds: (name, gamma, claim, phase to explore)
G1 = bytes([137, 0, 137, 0, 5, 30])                      # axiom  phi0 -> phi0
C1 = bytes([137, 0, 137, 0, 5, 30, 2, 0, 8, 0, 30])      # claims phi0->phi0 , exists x0. x0
SEEDS = [
    ('proof/empty', b'', b'', 2),
    ('proof/theory', G1, C1, 2),
    ('gamma', b'', b'', 0),
    ('claim', G1, b'', 1),
    # the same claim twice (claims are a stack of obligations, one proof each), and a single claim (what follows the
    # proof of the last claim is still executed)
    ('proof/repeated-claim', G1, bytes([137, 0, 137, 0, 5, 30, 137, 0, 137, 0, 5, 30]), 2),
    ('proof/one-claim', G1, bytes([137, 0, 137, 0, 5, 30]), 2),
]


# ------------------------------------------------------------------------------------------------
# comparing one Rust answer with the reference
# ------------------------------------------------------------------------------------------------

def classify(rust: str, g: bytes, c: bytes, p: bytes, upto: int):
    """rust: 'OK <dump>' or 'REJECT'. Returns (status, detail) with status in
    'agree_accept','agree_reject','unspec','mayreject','VIOLATION'."""
    # fast path: the wrap policy is bit-compatible with the dump format
    r = rm.run3_policy(g, c, p, upto, 'wrap')
    if r[0] == 'ACCEPT' and rust.startswith('OK ') and rust[3:] == r[1].dump() and not r[2]:
        return 'agree_accept', None
    if r[0] == 'REJECT' and rust == 'REJECT':
        # all policies reject? (a REJECT under wrap with ACCEPT elsewhere is UNSPEC, still compatible)
        return 'agree_reject', r[1]
    full = rm.run3(g, c, p, upto)
    if full[0] == 'UNSPEC':
        return 'unspec', full[1]
    if full[0] == 'REJECT':
        if rust == 'REJECT':
            return 'agree_reject', full[1]
        return 'VIOLATION', {'expected': 'REJECT', 'reason': full[1], 'observed': rust}
    # ACCEPT / MAYREJECT
    if rust == 'REJECT':
        if full[0] == 'MAYREJECT':
            return 'mayreject', 'over-strict capture refusal'
        return 'VIOLATION', {'expected': 'ACCEPT', 'expected_state': full[1], 'observed': 'REJECT'}
    if rm.ndump_of(rust[3:]) == full[1]:
        return ('mayreject' if full[0] == 'MAYREJECT' else 'agree_accept'), None
    return 'VIOLATION', {'expected': 'ACCEPT', 'expected_state': full[1], 'observed': rust[3:]}


# ------------------------------------------------------------------------------------------------
# (1) BFS
# ------------------------------------------------------------------------------------------------

def expand_chunk(args):
    """worker: expand a list of programs by every alphabet instruction."""
    seed_idx, progs, caps = args[:3]
    A = ALPHABETS[args[3] if len(args) > 3 else 'full']
    name, g, c, upto = SEEDS[seed_idx]
    h = par.harness()
    h.set_alphabet(A)
    max_stack, max_mem, max_len = caps
    reqs = []
    for prog in progs:
        if upto == 0:
            line = f'X 0 {common.hx(prog)} - -'
        elif upto == 1:
            line = f'X 1 {common.hx(g)} {common.hx(prog)} -'
        else:
            line = f'X 2 {common.hx(g)} {common.hx(c)} {common.hx(prog)}'
        reqs.append(line)
    answers = h.ask_many(reqs)
    children = []
    stats = {'transitions': 0, 'agree_accept': 0, 'agree_reject': 0, 'unspec': 0, 'mayreject': 0, 'capped': 0}
    reasons: dict[str, int] = {}
    viols = []
    for prog, ans in zip(progs, answers):
        res = ans.split('\t')
        for a, rust in zip(A, res):
            stats['transitions'] += 1
            child = prog + a
            if upto == 0:
                gg, cc, pp = child, b'', b''
            elif upto == 1:
                gg, cc, pp = g, child, b''
            else:
                gg, cc, pp = g, c, child
            status, detail = classify(rust, gg, cc, pp, upto)
            if status == 'VIOLATION':
                viols.append({'seed': name, 'gamma': gg.hex(), 'claim': cc.hex(), 'proof': pp.hex(), 'upto': upto,
                              'detail': detail})
                continue
            stats[status] += 1
            if status == 'agree_reject':
                reasons[detail] = reasons.get(detail, 0) + 1
            if status in ('agree_accept', 'mayreject') and rust.startswith('OK '):
                d = rust[3:]
                st, me, _ = d.split('|')
                if (st.count(';') + 1 if st else 0) > max_stack or (me.count(';') + 1 if me else 0) > max_mem \
                        or len(d) > max_len:
                    stats['capped'] += 1
                    continue
                children.append((child, hashlib.blake2b(d.encode(), digest_size=16).digest()))
    return children, stats, reasons, viols


def bfs(chk: common.Check, seed_idx: int, depth: int, caps, agg, alpha: str = 'full'):
    name = SEEDS[seed_idx][0]
    seen = set()
    frontier = [b'']
    # the seed state itself
    h = par.harness()
    _, g, c, upto = SEEDS[seed_idx]
    d0 = h.ask(f'R {upto} {common.hx(g)} {common.hx(c)} -')
    assert d0.startswith('OK '), (name, d0)
    seen.add(hashlib.blake2b(d0[3:].encode(), digest_size=16).digest())
    for lvl in range(1, depth + 1):
        work = [(seed_idx, ch, caps, alpha) for ch in par.chunks(frontier, common.ncpu() * 4)]
        results = par.pmap(expand_chunk, work)
        nxt = []
        for children, stats, reasons, viols in results:
            for k, v in stats.items():
                agg[k] = agg.get(k, 0) + v
            for k, v in reasons.items():
                agg['reasons'][k] = agg['reasons'].get(k, 0) + v
            for v in viols:
                sig = {'part': 'bfs', 'gamma': v['gamma'], 'claim': v['claim'], 'proof': v['proof']}
                chk.violation(sig, v, f"checker and documented machine disagree on {v['seed']} proof={v['proof']}: "
                                      f"{v['detail'].get('expected')} expected ({v['detail'].get('reason', '')}), "
                                      f"observed {str(v['detail'].get('observed'))[:80]}")
            for child, d in children:
                if d not in seen:
                    seen.add(d)
                    nxt.append(child)
        agg['levels'].append({'seed': name, 'alphabet': alpha, 'depth': lvl, 'new_states': len(nxt)})
        frontier = nxt
        if not frontier:
            break
    agg['states'] = agg.get('states', 0) + len(seen)
    if frontier:
        chk.sample({'seed': name, 'program_hex': frontier[len(frontier) // 2].hex()})
    return len(seen)


# ------------------------------------------------------------------------------------------------
# (2) raw byte strings and (3) mutations: generic batch comparison
# ------------------------------------------------------------------------------------------------

def compare_batch(args):
    """worker: list of (g, c, p) triples -> stats, violations. Compares state (R) and verdict (V)."""
    triples, part = args
    h = par.harness()
    reqs = []
    for g, c, p in triples:
        reqs.append(f'R 2 {common.hx(g)} {common.hx(c)} {common.hx(p)}')
        reqs.append(f'V {common.hx(g)} {common.hx(c)} {common.hx(p)}')
    ans = h.ask_many(reqs)
    stats = {'agree_accept': 0, 'agree_reject': 0, 'unspec': 0, 'mayreject': 0, 'verify_accept': 0}
    reasons: dict[str, int] = {}
    viols = []
    for k, (g, c, p) in enumerate(triples):
        rust, ver = ans[2 * k], ans[2 * k + 1]
        status, detail = classify(rust, g, c, p, 2)
        if status == 'VIOLATION':
            viols.append({'part': part, 'gamma': g.hex(), 'claim': c.hex(), 'proof': p.hex(), 'detail': detail})
            continue
        stats[status] += 1
        if status == 'agree_reject':
            reasons[detail] = reasons.get(detail, 0) + 1
        # final verdict of verify(): additionally requires that no claim is left
        if status in ('agree_accept', 'mayreject') and rust.startswith('OK '):
            claims_left = rust[3:].split('|')[2] != ''
            want = 'REJECT' if claims_left else 'ACCEPT'
            if ver != want:
                viols.append({'part': part + '/verify', 'gamma': g.hex(), 'claim': c.hex(), 'proof': p.hex(),
                              'detail': {'expected': want, 'reason': 'CLAIMS_LEFT' if claims_left else '',
                                         'observed': ver}})
            elif ver == 'ACCEPT':
                stats['verify_accept'] += 1
            else:
                reasons['CLAIMS_LEFT'] = reasons.get('CLAIMS_LEFT', 0) + 1
        elif status == 'agree_reject' and ver != 'REJECT':
            viols.append({'part': part + '/verify', 'gamma': g.hex(), 'claim': c.hex(), 'proof': p.hex(),
                          'detail': {'expected': 'REJECT', 'reason': detail, 'observed': ver}})
    return stats, reasons, viols


def run_batches(chk, triples, part, agg):
    triples = list(triples)
    work = [(ch, part) for ch in par.chunks(triples, common.ncpu() * 4)]
    for stats, reasons, viols in par.pmap(compare_batch, work):
        for k, v in stats.items():
            agg[part + '_' + k] = agg.get(part + '_' + k, 0) + v
        for k, v in reasons.items():
            agg['reasons'][k] = agg['reasons'].get(k, 0) + v
        for v in viols:
            sig = {'part': v['part'], 'gamma': v['gamma'], 'claim': v['claim'], 'proof': v['proof']}
            d = v['detail']
            chk.violation(sig, v, f"{v['part']}: gamma={v['gamma'] or '-'} claim={v['claim'] or '-'} proof={v['proof'] or '-'}: "
                                  f"expected {d.get('expected')} {d.get('reason', '')}, observed {str(d.get('observed'))[:80]}")
    agg[part + '_programs'] = agg.get(part + '_programs', 0) + len(triples)
    return len(triples)


RAW_BYTES = [0, 1, 2, 3, 4, 5, 6, 7, 8, 9, 10, 11, 12, 14, 15, 19, 21, 22, 24, 26, 27, 28, 29, 30, 31, 137, 138, 255]


def raw_strings(maxlen: int):
    for n in range(0, maxlen + 1):
        for t in itertools.product(RAW_BYTES, repeat=n):
            yield bytes(t)


def shipped_triples():
    base = common.REPO / 'proofs'
    out = []
    for gp in sorted(base.rglob('*.ml-gamma')):
        cp = gp.with_suffix('.ml-claim')
        pp = gp.with_suffix('.ml-proof')
        if cp.exists() and pp.exists():
            out.append((str(gp.relative_to(base)), gp.read_bytes(), cp.read_bytes(), pp.read_bytes()))
    # identical copies exist in sub-directories: keep one of each content
    seen = set()
    uniq = []
    for name, g, c, p in out:
        key = (g, c, p)
        if key not in seen:
            seen.add(key)
            uniq.append((name, g, c, p))
    uniq.sort(key=lambda t: len(t[1]) + len(t[2]) + len(t[3]))
    return uniq


def mutations(g: bytes, c: bytes, p: bytes, values):
    """all prefixes, single-byte replacements, deletions and adjacent transpositions of each buffer"""
    bufs = [g, c, p]
    for which in range(3):
        b = bufs[which]

        def with_(nb):
            t = list(bufs)
            t[which] = nb
            return tuple(t)

        for i in range(len(b)):
            yield with_(b[:i])                                  # truncation
            yield with_(b[:i] + b[i + 1:])                      # deletion
            if i + 1 < len(b) and b[i] != b[i + 1]:
                yield with_(b[:i] + bytes([b[i + 1], b[i]]) + b[i + 2:])
            for v in values:
                if v != b[i]:
                    yield with_(b[:i] + bytes([v]) + b[i + 1:])


# ------------------------------------------------------------------------------------------------

def judgement_chunk(terms):
    """(4) the four judgements of the checker vs the document's pseudo code, function level"""
    from . import universe
    h = par.harness()
    reqs, meta = [], []
    for t in terms:
        tb = universe.term_bytes(t).hex()
        for fn in ('e_fresh', 's_fresh', 'positive', 'negative'):
            for x in (0, 1):
                reqs.append(f'J {tb} {fn} {x}')
                meta.append((t, fn, x))
    ans = h.ask_many(reqs)
    stats = {'judgements': 0, 'judged_true': 0, 'unconstructible': 0}
    viols = []
    for (t, fn, x), a in zip(meta, ans):
        if a == 'REJECT':
            stats['unconstructible'] += 1
            continue
        stats['judgements'] += 1
        want = getattr(rm, fn)(t, x)
        if want:
            stats['judged_true'] += 1
        if (a == 'true') != want:
            viols.append({'part': 'judgement', 'fn': fn, 'var': x, 'term': rm.show(t), 'gamma': '', 'claim': '',
                          'proof': universe.term_bytes(t).hex(), 'detail': {'expected': want, 'observed': a, 'reason': fn}})
    return stats, {}, viols


def replay(path: str) -> int:
    import json
    v = json.loads(open(path).read())
    r = v['replay']
    if r.get('part') == 'judgement':
        h = common.Harness()
        a = h.ask(f"J {r['proof']} {r['fn']} {r['var']}")
        want = getattr(rm, r['fn'])(rm.parse(r['term']), r['var'])
        print('checker:', a, ' document:', want)
        return 0 if (a == 'true') == want else 1
    g, c, p = bytes.fromhex(r['gamma']), bytes.fromhex(r['claim']), bytes.fromhex(r['proof'])
    upto = r.get('upto', 2)
    h = common.Harness()
    rust = h.ask(f'R {upto} {common.hx(g)} {common.hx(c)} {common.hx(p)}')
    ver = h.ask(f'V {common.hx(g)} {common.hx(c)} {common.hx(p)}')
    print('checker state :', rust)
    print('checker verify:', ver)
    print('reference     :', rm.run3(g, c, p, upto)[:2])
    st, det = classify(rust, g, c, p, upto)
    print('classification:', st, det)
    return 1 if st == 'VIOLATION' else 0


def main(argv=None) -> int:
    argv = argv or []
    if argv and argv[0] == '--replay':
        return replay(argv[1])
    chk = common.Check(PROP, 'model_checking')
    thorough = chk.tier == 'thorough'
    common.build_harness()
    agg: dict = {'reasons': {}, 'levels': []}
    # (1) BFS
    depth_main = 4 if thorough else 3
    caps = (4, 3, 600)
    for si in range(4):
        depth = depth_main if si < 2 else depth_main - 1 if not thorough else depth_main
        bfs(chk, si, depth, caps, agg)
    # deeper search with the rule-centred alphabet (proof phase, empty and seeded theory)
    for si in (0, 1):
        bfs(chk, si, 6 if thorough else 5, caps, agg, 'rule')
    for si in (4, 5):
        bfs(chk, si, 6 if thorough else 5, caps, agg, 'rule')
        bfs(chk, si, 3, caps, agg)
    # (2) raw strings
    maxlen = 4 if thorough else 3
    raws = list(raw_strings(maxlen))
    run_batches(chk, ((b'', b'', s) for s in raws), 'raw_proof', agg)
    run_batches(chk, ((s, b'', b'') for s in raw_strings(maxlen - 1)), 'raw_gamma', agg)
    run_batches(chk, ((G1, s, b'') for s in raw_strings(maxlen - 1)), 'raw_claim', agg)
    # stack residue left by the gamma and claim phases must not be visible to the next phase (verify() clears it)
    GR = G1 + bytes([2, 0])
    CR = C1 + bytes([4, 0, 4, 0])
    run_batches(chk, ((GR, CR, s) for s in raw_strings(maxlen - 1)), 'residue_proof', agg)
    run_batches(chk, ((GR, s, b'') for s in raw_strings(maxlen - 1)), 'residue_claim', agg)
    run_batches(chk, ((GR, bytes([4, 0, 4, 0]), s) for s in raw_strings(maxlen)), 'residue_noclaim', agg)
    # (4) judgements at function level
    from . import universe
    jt = universe.meta(4 if thorough else 3)
    for stats, _, viols in par.pmap(judgement_chunk, par.chunks(jt, common.ncpu() * 4)):
        for k, v in stats.items():
            agg[k] = agg.get(k, 0) + v
        for v in viols:
            sig = {'part': 'judgement', 'fn': v['fn'], 'var': v['var'], 'term': v['term']}
            chk.violation(sig, v, f"{v['fn']}({v['var']}) of {v['term']}: document says {v['detail']['expected']}, checker says {v['detail']['observed']}")
    # (3) mutations of shipped programs
    trip = shipped_triples()
    budget = 4000 if thorough else 400  # total bytes of programs mutated exhaustively
    used = 0
    mutated = []
    for name, g, c, p in trip:
        sz = len(g) + len(c) + len(p)
        if used + sz > budget:
            continue
        used += sz
        mutated.append(name)
        run_batches(chk, [(g, c, p)], 'shipped', agg)
        run_batches(chk, mutations(g, c, p, range(256)), 'mut', agg)
    # all shipped triples unmodified must be accepted by both
    run_batches(chk, [(g, c, p) for _, g, c, p in trip], 'shipped', agg)
    chk.sample({'mutated_triples': mutated})
    chk.sample({'raw_string_hex': raws[len(raws) // 2].hex()})
    total = agg.get('transitions', 0) + sum(v for k, v in agg.items() if k.endswith('_programs')) + agg.get('judgements', 0)
    chk.set('states', agg.get('states', 0))
    chk.set('transitions', agg.get('transitions', 0))
    chk.set('traces_validated_against_impl', total)
    chk.set('exhaustive', True)
    chk.set('bounds', {'bfs_depth': depth_main, 'alphabet': len(ALPHA), 'caps(stack,mem,dumplen)': caps,
                       'raw_len': maxlen, 'raw_alphabet': len(RAW_BYTES), 'mutated_bytes': used})
    chk.set('detail', {k: v for k, v in agg.items() if k not in ('levels',)})
    chk.set('levels', agg['levels'])
    chk.set('distinct_reject_reasons', len(agg['reasons']))
    chk.assume('E2 (mc/refmachine.py) is my reading of docs/proof-language.md; unspecified corners are three-valued')
    chk.assume('states beyond the caps are counted (capped) but not expanded')
    return chk.finish()


if __name__ == '__main__':
    sys.exit(main(sys.argv[1:]))
