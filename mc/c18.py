"""C18 -- output is a deterministic function of the input.

Targets: shipped modules, import-graph modules, DSL expressions, translations of generated and shipped Metamath
databases; binary and pretty; optimise off and on. Configurations (one subprocess each): a window of hash seeds
selected by VERIF_SEED; every sequence of <=2/3 targets serialised one after the other in the same process (so each
target is produced after every history of <=1/2 other targets); the same module object serialised three times in
a row (what translate.main does). Oracle: the digests of all files are identical to the baseline (fresh process,
PYTHONHASHSEED=0, empty history)."""
from __future__ import annotations

import hashlib
import itertools
import json
import os
import subprocess
import sys

from . import common, par

PROP = 'C18'


def build_target(tid: str):
    """-> zero-argument factory returning a fresh module object"""
    from . import bridge, pyrun, modgraph, c02  # noqa: F401
    kind, _, rest = tid.partition(':')
    if kind == 'shipped':
        import importlib
        modname, cls = rest.rsplit('.', 1)
        return getattr(importlib.import_module(modname), cls)
    if kind == 'graph':
        shape, idx, mode, share = rest.split(';')
        return lambda: modgraph.build(shape, tuple(int(x) for x in idx.split(',')), mode, share == '1')[0]
    if kind == 'twin':
        def fac(k=int(rest)):
            P = bridge.P
            from frozendict import frozendict
            from proof_generation.proof import ProofExp
            a, b = P.Symbol('a'), P.Symbol('b')
            canon = P._and(a, b)                                                                    # keys (0, 1)
            other = P.Instantiate(P._and.definition, frozendict({1: b})).instantiate({0: a})          # equal, keys (1, 0)
            inner = (canon, other, P._or(canon, other), P._or(other, canon))[k]
            ax = P.neg(inner)
            m = ProofExp(axioms=[ax, P.Implies(ax, a)], claims=[ax])
            m.add_proof_expression(m.load_axiom(ax))
            return m
        return fac
    if kind == 'nested':
        return lambda: modgraph.nested_module(int(rest))
    if kind == 'expr':
        d = c02.tup(json.loads(rest))

        def fac():
            lib = c02.make_lib(light=True)
            return pyrun.module_for(c02.build(d, lib), axioms=lib.get_axioms(), notations=lib.get_notations())
        return fac
    if kind in ('mm', 'mmgen', 'mmvars'):
        from . import c16, mmgen, mmref
        if kind == 'mm':
            text = (common.REPO / 'generation' / 'mm-benchmarks' / rest).read_text()
        elif kind == 'mmvars':
            text = VARDB.replace('AXIOMS', VAR_AXIOMS[rest])
        else:
            fi, ti, layout = rest.split(';')
            fk = c16.feature_vectors(False)[int(fi)]
            ft = mmgen.Features(*fk)
            _, _, thms = mmgen.derivations(ft, 2, 4)
            t, tree, _ = thms[int(ti)]
            text = mmref.write_db(mmgen.database_with_goal(ft, t, tree, layout))
        return lambda: translation_module(text)
    raise ValueError(tid)


VARDB = r"""
$c #Pattern #Variable #ElementVariable #SetVariable |- \imp ( ) $.
$v ph0 ph1 ph2 xX yY zZ eE sS $.
ph0-is-pattern $f #Pattern ph0 $.
ph1-is-pattern $f #Pattern ph1 $.
ph2-is-pattern $f #Pattern ph2 $.
zZ-is-var $f #Variable zZ $.
xX-is-var $f #Variable xX $.
yY-is-var $f #Variable yY $.
eE-is-evar $f #ElementVariable eE $.
sS-is-svar $f #SetVariable sS $.
var-is-pattern $a #Pattern xX $.
imp-is-pattern $a #Pattern ( \imp ph0 ph1 ) $.
proof-rule-prop-1 $a |- ( \imp ph0 ( \imp ph1 ph0 ) ) $.
proof-rule-prop-2 $a |- ( \imp ( \imp ph0 ( \imp ph1 ph2 ) ) ( \imp ( \imp ph0 ph1 ) ( \imp ph0 ph2 ) ) ) $.
${
    proof-rule-mp.0 $e |- ( \imp ph0 ph1 ) $.
    proof-rule-mp.1 $e |- ph0 $.
    proof-rule-mp   $a |- ph1 $.
$}
AXIOMS
goal $p |- ( \imp ph0 ph0 ) $=
  ( imp-is-pattern proof-rule-prop-2 proof-rule-prop-1 proof-rule-mp ) AAABZBZF
  AFABBGFBAFACAFDEAADE $.
"""
VAR_AXIOMS = {
    'two': r'ax-two $a |- ( \imp xX ( \imp yY xX ) ) $.',
    'three': r'ax-three $a |- ( \imp zZ ( \imp yY ( \imp xX zZ ) ) ) $.',
    'mixed': r'ax-mixed $a |- ( \imp eE ( \imp yY ( \imp sS xX ) ) ) $.' + '\n' + r'ax-two $a |- ( \imp yY ( \imp xX yY ) ) $.',
}


def translation_module(text):
    from proof_generation.interpreter import ExecutionPhase
    from proof_generation.metamath import translate as T
    from proof_generation.metamath.converter.converter import MetamathConverter
    from proof_generation.metamath.converter.representation import AxiomWithAntecedents
    from proof_generation.metamath.parser import parse_database
    from proof_generation.proof import ProofExp
    converter = MetamathConverter(parse_database(text))
    axioms = []
    for n in converter.exported_axioms:
        a = converter.get_axiom_by_name(n)
        axioms.append(T.convert_to_implication(a.antecedents, a.pattern) if isinstance(a, AxiomWithAntecedents) else a.pattern)
    claims = [converter.get_lemma_by_name(l).pattern for l in converter.lemmas]

    class TranslatedProofSkeleton(ProofExp):
        def __init__(self):
            super().__init__(axioms=axioms, claims=claims)

        def execute_proofs_phase(self, interpreter):
            assert interpreter.phase == ExecutionPhase.Proof
            T.exec_proof(converter, 'goal', self, interpreter)
    return TranslatedProofSkeleton()


def digests_of(mod, optimize):
    from . import pyrun
    out = {}
    for fmt in ('binary', 'pretty'):
        files = pyrun.serialize_real(mod, optimize, fmt)
        for k, v in files.items():
            out[k] = hashlib.sha256(v).hexdigest()[:16]
    return out


def worker(spec):
    """spec: {'sequence': [tid...], 'same_object': n}; prints, for every position, the digests (both optimise settings)"""
    if spec.get('clock'):
        # the clock is an environment answer the worker decides: 'late' = a process that has been running for a year,
        # 'jumpy' = every reading is an hour after the previous one (any elapsed-time budget is exhausted at once)
        import time
        state = {'n': 0}
        for fn in ('time', 'monotonic', 'perf_counter', 'process_time', 'thread_time'):
            real = getattr(time, fn)

            def shifted(real=real):
                state['n'] += 1
                return real() + (365 * 86400.0 if spec['clock'] == 'late' else 3600.0 * state['n'])
            setattr(time, fn, shifted)
            real_ns = getattr(time, fn + '_ns')

            def shifted_ns(real_ns=real_ns):
                state['n'] += 1
                return real_ns() + int((365 * 86400.0 if spec['clock'] == 'late' else 3600.0 * state['n']) * 1e9)
            setattr(time, fn + '_ns', shifted_ns)
    res = []
    for tid in spec['sequence']:
        fac = build_target(tid)
        entry = {'target': tid, 'runs': []}
        try:
            if spec.get('mutate'):
                # serialise, THEN declare one more axiom / claim / proof, serialise again: must equal what a module that was
                # never serialised gives after the same declarations ('what was serialised before' includes this object itself)
                def grow(m):
                    from . import bridge
                    P = bridge.P
                    x = P.App(P.Symbol('late'), P.App(P.Symbol('late'), P.Symbol('a')))
                    m.add_axiom(x)
                    if type(m).execute_proofs_phase is __import__('proof_generation.proof', fromlist=['ProofExp']).ProofExp.execute_proofs_phase:
                        m.add_claim(x)
                        m.add_proof_expression(m.load_axiom(x))
                for opt in (False, True):
                    used = fac()
                    digests_of(used, opt)
                    grow(used)
                    fresh = fac()
                    grow(fresh)
                    entry['runs'].append({'optimize': opt, 'digests': digests_of(used, opt), 'fresh': digests_of(fresh, opt)})
            elif spec.get('same_object', 0) > 1:
                for opt in (False, True):
                    obj = fac()
                    for _ in range(spec['same_object']):
                        entry['runs'].append({'optimize': opt, 'digests': digests_of(obj, opt)})
            else:
                for opt in (False, True):
                    entry['runs'].append({'optimize': opt, 'digests': digests_of(fac(), opt)})
        except Exception as ex:  # noqa: BLE001
            entry['error'] = f'{type(ex).__name__}: {str(ex)[:120]}'
        res.append(entry)
    print(json.dumps(res))


def run_spec(args):
    spec, seed = args
    env = dict(os.environ, PYTHONHASHSEED=str(seed))
    r = subprocess.run([sys.executable, '-m', 'mc.c18', '--worker', json.dumps(spec)], capture_output=True, text=True, env=env,
                       cwd=str(common.VERIF))
    if r.returncode != 0:
        return spec, seed, None, r.stderr[-300:]
    return spec, seed, json.loads(r.stdout.strip().splitlines()[-1]), None


def targets(thorough):
    from . import c02, modgraph, c16, mmgen  # noqa: F401
    T = [f'shipped:{m}.{c}' for m, c in c02.SHIPPED]
    g = [sp for sp in modgraph.family(3) if sp[2] == 'all']
    for sp in (g[::max(1, len(g) // (12 if thorough else 5))]):
        T.append('graph:' + ';'.join([sp[0], ','.join(map(str, sp[1])), sp[2], '1' if sp[3] else '0']))
    prim = c02.level0(4)
    ex = c02.successors(prim[:3], prim[:3], 4, 2)
    for d in ex[::max(1, len(ex) // (10 if thorough else 4))]:
        T.append('expr:' + json.dumps(d))
    # plugs given to dynamic_inst as partially applied / re-ordered notation; theories whose axioms contain one another
    for d in (('dinst', ('prop1',), ((0, 14), (1, 4))), ('dinst', ('prop1',), ((1, 14),)), ('dinst', ('prop2',), ((2, 14), (0, 8)))):
        T.append('expr:' + json.dumps(d))
    T += [f'nested:{k}' for k in range(4)] + [f'twin:{k}' for k in range(4)]
    T += ['mm:impreflex-compressed-goal.mm', 'mm:transfer-task-specific.mm', 'mmvars:two', 'mmvars:three', 'mmvars:mixed']
    _, _, thms = mmgen.derivations(mmgen.Features(), 2, 4)
    two_var = [i for i, (t, _, h) in enumerate(thms) if len(__import__('mc.mmref', fromlist=['x']).term_vars(t)) >= 2]
    for i in (two_var[:: max(1, len(two_var) // (6 if thorough else 3))]):
        T.append(f'mmgen:0;{i};all')
    return T


def replay(path: str) -> int:
    v = json.loads(open(path).read())
    print(json.dumps(v['signature']), '\n', v.get('what'))
    r = v['replay']
    spec, seed, data, err = run_spec((r['spec'], r['seed']))
    print(err or json.dumps(data)[:1500])
    return 1


def main(argv=None) -> int:
    argv = argv or []
    if argv and argv[0] == '--worker':
        worker(json.loads(argv[1]))
        return 0
    if argv and argv[0] == '--replay':
        return replay(argv[1])
    chk = common.Check(PROP, 'exploration')
    thorough = chk.tier == 'thorough'
    T = targets(thorough)
    agg: dict = {}
    # baseline: fresh process, seed 0, empty history
    base = {}
    for spec, seed, data, err in par.pmap(run_spec, [({'sequence': [t]}, 0) for t in T]):
        t = spec['sequence'][0]
        if data is None or 'error' in data[0]:
            # the toolkit refuses this target (e.g. a known finding of another property): not a determinism matter, drop it
            agg['targets_refused'] = agg.get('targets_refused', 0) + 1
            continue
        base[t] = {r['optimize']: r['digests'] for r in data[0]['runs']}
    T = [t for t in T if t in base]
    nseeds = 32 if thorough else 8
    seeds = [16 * chk.seed + i for i in range(nseeds)]
    work = [({'sequence': [t]}, s) for t in T for s in seeds if s != 0]
    core = T[::max(1, len(T) // (7 if thorough else 5))]
    for seq in itertools.product(core, repeat=2):
        work.append(({'sequence': list(seq)}, 0))
    if thorough:
        for seq in itertools.product(core[:5], repeat=3):
            work.append(({'sequence': list(seq)}, 0))
    else:
        for seq in itertools.product(core[:3], repeat=3):
            work.append(({'sequence': list(seq)}, 0))
    for t in T:
        work.append(({'sequence': [t], 'same_object': 3}, 0))
        work.append(({'sequence': [t], 'same_object': 3}, seeds[-1]))
    # equal patterns written with differently ordered argument maps, one module after the other in one process
    tw = [f'twin:{k}' for k in range(4)]
    for a_, b_ in itertools.permutations(tw, 2):
        work.append(({'sequence': [a_, b_]}, 0))
    # every shipped module before and after modules of the other families (state shared between module objects, e.g. a
    # default list that one module's constructor mutates, shows in the second one's pretty files)
    shipped = [t for t in T if t.startswith('shipped:')]
    others = [next((t for t in T if t.startswith(k)), None) for k in ('graph:', 'nested:', 'twin:', 'expr:')]
    for s_ in shipped:
        for o_ in others:
            if o_ is not None:
                work.append(({'sequence': [s_, o_]}, 0))
                work.append(({'sequence': [o_, s_]}, 0))
    for t in T:
        if t.split(':')[0] in ('shipped', 'graph', 'nested', 'expr'):
            work.append(({'sequence': [t], 'mutate': True}, 0))
    # the process clocks answer differently (a long-lived process; readings far apart)
    for t in T:
        for clock in ('late', 'jumpy'):
            work.append(({'sequence': [t], 'clock': clock}, 0))
    for spec, seed, data, err in par.pmap(run_spec, work):
        agg['configurations'] = agg.get('configurations', 0) + 1
        kind = 'clock' if spec.get('clock') else 'grown_after_serialising' if spec.get('mutate') else 'same_object' if spec.get('same_object') else ('history' if len(spec['sequence']) > 1 else 'hashseed')
        if data is None:
            chk.violation({'kind': 'worker_crash', 'config': kind}, {'spec': spec, 'seed': seed}, f'{spec} under seed {seed}: {err}')
            continue
        for pos, entry in enumerate(data):
            t = entry['target']
            if 'error' in entry:
                chk.violation({'kind': 'raises_in_config', 'config': kind, 'target_kind': t.split(':')[0]}, {'spec': spec, 'seed': seed},
                              f'{t} serialises in a fresh process but raises {entry["error"]} in configuration {kind} (seed {seed}, sequence {spec["sequence"]})')
                continue
            for r in entry['runs']:
                agg['outputs_compared'] = agg.get('outputs_compared', 0) + 1
                if 'fresh' in r:
                    if r['digests'] != r['fresh']:
                        diff = [k for k in r['digests'] if r['digests'][k] != r['fresh'].get(k)]
                        chk.violation({'kind': 'output_differs', 'config': kind, 'target_kind': t.split(':')[0], 'files': diff[:2]},
                                      {'spec': spec, 'seed': seed},
                                      f'{t} (optimize={r["optimize"]}): serialised, extended by an axiom/claim/proof and serialised again gives other '
                                      f'files {diff} than a never-serialised module with the same declarations')
                        break
                    continue
                if r['digests'] != base[t][r['optimize']]:
                    diff = [k for k in r['digests'] if r['digests'][k] != base[t][r['optimize']].get(k)]
                    chk.violation({'kind': 'output_differs', 'config': kind, 'target_kind': t.split(':')[0], 'files': diff[:2]},
                                  {'spec': spec, 'seed': seed},
                                  f'{t} (optimize={r["optimize"]}) differs from the baseline in {diff} in configuration {kind}: '
                                  f'seed {seed}, position {pos} of sequence {spec["sequence"]}')
                    break
    from . import pyrun
    pyrun.cleanup()
    chk.set('evaluations', agg.get('outputs_compared', 0))
    chk.set('distinct_nontrivial', agg.get('configurations', 0))
    chk.set('rule', 'every (target, hash seed), every (target, clock answer), every sequence of targets up to the bound, every target serialised three times from one '
                    'object; each configuration runs in its own process and is distinct; all are non-trivial (12 files compared each)')
    chk.set('exhaustive', True)
    chk.set('detail', agg)
    chk.set('targets', T)
    chk.set('hash_seeds', seeds)
    chk.sample({'configuration': {'sequence': core[:2], 'seed': 0}})
    chk.assume('baseline = fresh process, PYTHONHASHSEED=0, empty history; hash seeds in a window selected by VERIF_SEED')
    return chk.finish()


if __name__ == '__main__':
    sys.exit(main(sys.argv[1:]))
