"""C07 -- Python proof rules apply exactly when the documented rule applies.

Bounded-exhaustive: BasicInterpreter and StatefulInterpreter
  modus_ponens(l, r)            for all ordered pairs of conclusions from the universe C,
  exists_generalization(p, x)   for all p in C, x in {x0, x1},
  instantiate(p, delta)         for all p in C x maps of <= 2 metavariables into a pool (incl. constraint-violating maps).
Oracle: the documented rule on independently expanded terms. A call either raises or returns exactly the
documented conclusion; returning while the rule is inapplicable is the violation."""
from __future__ import annotations

import itertools
import json
import sys

from . import common, par, refpat
from . import refmachine as rm

PROP = 'C07'


def universe(size, with_stacked=False):
    from . import bridge
    P = bridge.P
    C = list(bridge.repo_universe(size, extra_meta=True))
    pool = [P.EVar(0), P.MetaVar(0), P.neg(P.EVar(0)), P._and(P.EVar(0), P.EVar(1)), P.MetaVar(1, e_fresh=(P.EVar(0),)),
            P.Exists(0, P.EVar(0)), P.bot(), P._or(P.MetaVar(0), P.EVar(1)),
            P.Mu(0, P.App(P.EVar(0), P.SVar(0))), P.Mu(1, P.App(P.EVar(1), P.SVar(1))), P.Exists(1, P.App(P.EVar(0), P.EVar(1))),
            P.ESubst(P.MetaVar(0), P.EVar(0), P.App(P.Symbol('c'), P.EVar(0))), P.SSubst(P.MetaVar(0), P.SVar(0), P.EVar(1)),
            # pairs that print identically but differ in freshness (stale verdicts keyed by the printed form)
            P.neg(P.MetaVar(0, e_fresh=(P.EVar(0),))), P.neg(P.MetaVar(0)), P.neg(P.Symbol('x0')), P._and(P.Symbol('x1'), P.MetaVar(1, e_fresh=(P.EVar(1),))),
            P._and(P.EVar(1), P.MetaVar(1)),
            # twins by class (equal field values) and by the constraint list that is easiest to forget
            P.neg(P.SVar(0)), P.neg(P.EVar(1)), P.neg(P.SVar(1)), P.MetaVar(0, app_ctx_holes=(P.EVar(0),))]
    for a in pool:
        for b in pool:
            C.append(P.Implies(a, b))
    from frozendict import frozendict
    N = P.Instantiate(P._or(P.MetaVar(1), P.MetaVar(2)), frozendict({2: P.Symbol('a')}))
    C += [P.Implies(N, P.Implies(N, N)), P.Implies(P._or(P.MetaVar(1), P.MetaVar(2)), N), P.Implies(P.MetaVar(0), N)]
    # stacked pending substitutions on a metavariable fresh in both element variables, as consequents (generalisation asks
    # for freshness in the consequent)
    if with_stacked:
        from . import c06
        C += [P.Implies(P.Symbol('c'), st) for st in c06.stacked([P.MetaVar(0, e_fresh=(P.EVar(0), P.EVar(1)))])]
    C += [P.MetaVar(2, negative=(P.SVar(0),)), P.Implies(P.MetaVar(2, negative=(P.SVar(0),)), P.MetaVar(0)),
          P.Implies(P.neg(P.MetaVar(0)), P._and(P.EVar(0), P.EVar(1))), P.Implies(P.MetaVar(0), P.ESubst(P.MetaVar(1), P.EVar(0), P.EVar(1))),
          P.Implies(P.MetaVar(0), P.SSubst(P.MetaVar(1), P.SVar(0), P.EVar(0))),
          P.neg(P.EVar(0)), P._or(P.EVar(0), P.EVar(1)), P.Implies(P.EVar(1), P.Exists(0, P._and(P.EVar(0), P.EVar(1)))),
          P.Implies(P.EVar(1), P.Exists(1, P._and(P.EVar(0), P.EVar(1))))]
    return C


def interpreters():
    from . import bridge  # noqa: F401
    from proof_generation.basic_interpreter import BasicInterpreter
    from proof_generation.interpreter import ExecutionPhase
    from proof_generation.stateful_interpreter import StatefulInterpreter

    def basic(stack):
        return BasicInterpreter(ExecutionPhase.Proof)

    def stateful(stack):
        it = StatefulInterpreter(ExecutionPhase.Proof)
        it.stack = list(stack)
        return it

    return [('basic', basic), ('stateful', stateful)]


def mp_chunk(args):
    rows, size = args
    from . import bridge
    from proof_generation.proved import Proved
    C = universe(size)
    E = [bridge.expand(p) for p in C]
    out = {'evals': 0, 'applicable': 0, 'returned': 0, 'viol': []}
    its = interpreters()
    for i in rows:
        l = C[i]
        el = E[i]
        for j, r in enumerate(C):
            er = E[j]
            applicable = el[0] == 'imp' and el[1] == er
            if applicable:
                out['applicable'] += 1
            for name, mk in its:
                out['evals'] += 1
                pl, pr = Proved(l), Proved(r)
                it = mk([pl, pr])
                try:
                    res = it.modus_ponens(pl, pr)
                except Exception:  # noqa: BLE001
                    continue
                out['returned'] += 1
                got = bridge.expand(res.conclusion)
                if not applicable:
                    out['viol'].append(({'rule': 'modus_ponens', 'interp': name, 'left': repr(l), 'right': repr(r), 'kind': 'inapplicable'},
                                        f'{name}.modus_ponens({l}, {r}) returned {res.conclusion} although the rule does not apply'))
                elif got != el[2]:
                    out['viol'].append(({'rule': 'modus_ponens', 'interp': name, 'left': repr(l), 'right': repr(r), 'kind': 'wrong'},
                                        f'{name}.modus_ponens({l}, {r}) returned {res.conclusion}, expected {rm.show(el[2])}'))
    return out


def gen_chunk(args):
    rows, size = args
    from . import bridge
    from proof_generation.proved import Proved
    P = bridge.P
    C = universe(size, True)
    out = {'evals': 0, 'applicable': 0, 'returned': 0, 'viol': []}
    its = interpreters()
    for i in rows:
        p = C[i]
        ep = bridge.expand(p)
        for x in (0, 1):
            applicable = ep[0] == 'imp' and rm.e_fresh(ep[2], x)
            if applicable:
                out['applicable'] += 1
            for name, mk in its:
                out['evals'] += 1
                pp = Proved(p)
                it = mk([pp])
                try:
                    res = it.exists_generalization(pp, P.EVar(x))
                except Exception:  # noqa: BLE001
                    continue
                out['returned'] += 1
                got = bridge.expand(res.conclusion)
                if not applicable:
                    why = 'premise is not an implication' if ep[0] != 'imp' else f'x{x} is not fresh in the consequent'
                    out['viol'].append(({'rule': 'exists_generalization', 'interp': name, 'premise': repr(p), 'var': x, 'kind': 'inapplicable'},
                                        f'{name}.exists_generalization({p}, x{x}) returned {res.conclusion} although {why}'))
                elif got != ('imp', ('ex', x, ep[1]), ep[2]):
                    out['viol'].append(({'rule': 'exists_generalization', 'interp': name, 'premise': repr(p), 'var': x, 'kind': 'wrong'},
                                        f'{name}.exists_generalization({p}, x{x}) returned {res.conclusion}'))
    return out


def violated_constraint(ep, ed):
    """which declared constraint (document judgements) does the map violate? None if admissible"""
    for m in refpat.metavars(ep):
        if m[1] in ed:
            pl = ed[m[1]]
            for x in m[2]:
                if not rm.e_fresh(pl, x):
                    return 'e_fresh'
            for X in m[3]:
                if not rm.s_fresh(pl, X):
                    return 's_fresh'
            for X in m[4]:
                if not rm.positive(pl, X):
                    return 'positive'
            for X in m[5]:
                if not rm.negative(pl, X):
                    return 'negative'
    return None


def refpat_has_subst(t) -> bool:
    if t[0] in ('esub', 'ssub'):
        return True
    return any(refpat_has_subst(x) for x in t[1:] if isinstance(x, tuple) and x and isinstance(x[0], str))


def inst_chunk(args):
    rows, size = args
    from . import bridge
    from proof_generation.proved import Proved
    P = bridge.P
    C = universe(size, True)
    plugs = [P.EVar(0), P.EVar(1), P.SVar(0), P.MetaVar(1), P.neg(P.MetaVar(0)), P.Exists(0, P.EVar(0)),
             P._and(P.EVar(0), P.MetaVar(2)), P.neg(P.SVar(0)), P.bot()]
    # for premises that carry a pending substitution: a notation that BINDS the substituted variable around its argument
    import proof_generation.proofs.substitution as Sb
    binder_plug = Sb.forall(0)(P.App(P.Symbol('f'), P.EVar(0)))
    out = {'evals': 0, 'applicable': 0, 'inapplicable': 0, 'returned': 0, 'viol': []}
    its = interpreters()
    for i in rows:
        p = C[i]
        ep = bridge.expand(p)
        ids = sorted(refpat.mv_ids(ep))
        keysets = [ks for r in (1, 2) for ks in itertools.combinations(ids, r)]
        for ks in keysets:
            pl = plugs if len(ks) == 1 else plugs[:6]
            if len(ks) == 1 and refpat_has_subst(ep):
                pl = plugs + [binder_plug, P.Exists(1, P.App(P.EVar(0), P.EVar(1)))]
            for vals in itertools.product(pl, repeat=len(ks)):
                delta = dict(zip(ks, vals))
                ed = {k: bridge.expand(v) for k, v in delta.items()}
                bad = violated_constraint(ep, ed)
                if bad is None:
                    out['applicable'] += 1
                else:
                    out['inapplicable'] += 1
                for name, mk in its:
                    out['evals'] += 1
                    pp = Proved(p)
                    it = mk(list(delta.values()) + [pp])
                    try:
                        res = it.instantiate(pp, dict(delta))
                    except Exception:  # noqa: BLE001
                        continue
                    out['returned'] += 1
                    if bad is not None:
                        # the recorded finding is a MISSING constraint check: the call goes ahead and returns the substitution
                        # instance; going ahead with anything else is another defect and gets another signature
                        try:
                            plain = bridge.expand(res.conclusion) == refpat.minst(ep, ed, 'drop_mv')
                        except Exception:  # noqa: BLE001  (no textbook instance to compare with)
                            plain = True
                        out['viol'].append(({'rule': 'instantiate', 'interp': name, 'constraint': bad, 'premise': repr(p), 'delta': repr(delta),
                                             'kind': 'inapplicable' if plain else 'inapplicable_and_not_the_instance'},
                                            f'{name}.instantiate({p}, { {k: str(v) for k, v in delta.items()} }) returned {res.conclusion} '
                                            f'although the plug violates the declared {bad} constraint'))
                        continue
                    want = refpat.minst(ep, ed, 'drop_mv')
                    if bridge.expand(res.conclusion) != want:
                        out['viol'].append(({'rule': 'instantiate', 'interp': name, 'premise': repr(p), 'delta': repr(delta), 'kind': 'wrong'},
                                            f'{name}.instantiate({p}, { {k: str(v) for k, v in delta.items()} }) returned {res.conclusion}, expected {rm.show(want)}'))
    return out


def merge(chk, res, prefix, agg):
    for out in res:
        for k, v in out.items():
            if k == 'viol':
                for sig, what in v:
                    chk.violation(sig, sig, what)
            else:
                agg[prefix + k] = agg.get(prefix + k, 0) + v


def replay(path: str) -> int:
    v = json.loads(open(path).read())
    sig = v['signature']
    print(json.dumps(sig, indent=1)[:3000])
    print(v.get('what'))
    from . import bridge
    from frozendict import frozendict
    from proof_generation.proved import Proved
    P = bridge.P
    env = {k: getattr(P, k) for k in dir(P)}
    env['frozendict'] = frozendict
    mk = dict(interpreters())[sig['interp']]
    try:
        if sig['rule'] == 'modus_ponens':
            l, r = Proved(eval(sig['left'], env)), Proved(eval(sig['right'], env))
            res = mk([l, r]).modus_ponens(l, r)
        elif sig['rule'] == 'exists_generalization':
            p = Proved(eval(sig['premise'], env))
            res = mk([p]).exists_generalization(p, P.EVar(sig['var']))
        else:
            p = Proved(eval(sig['premise'], env))
            d = eval(sig['delta'], env)
            res = mk(list(d.values()) + [p]).instantiate(p, d)
        print('returned:', res.conclusion)
        return 1
    except Exception as ex:  # noqa: BLE001
        print('raised:', type(ex).__name__, ex)
        return 0


def main(argv=None) -> int:
    argv = argv or []
    if argv and argv[0] == '--replay':
        return replay(argv[1])
    chk = common.Check(PROP, 'exploration')
    thorough = chk.tier == 'thorough'
    size = 3
    C = universe(size)
    agg: dict = {}
    n = common.ncpu() * 4
    rows = list(range(len(C)))
    merge(chk, par.pmap(mp_chunk, [(ch, size) for ch in par.chunks(rows, n)]), 'mp_', agg)
    gsize = 4 if thorough else 3
    grow = list(range(len(universe(gsize, True))))
    merge(chk, par.pmap(gen_chunk, [(ch, gsize) for ch in par.chunks(grow, n)]), 'gen_', agg)
    merge(chk, par.pmap(inst_chunk, [(ch, gsize) for ch in par.chunks(grow, n)]), 'inst_', agg)
    # query histories: the hand-picked premises once more, each time in ONE process, forwards and backwards (the oracle is
    # absolute, so a verdict that depends on what was asked before shows up in one of the two orders)
    base = len(list(__import__('mc.bridge', fromlist=['x']).repo_universe(gsize, extra_meta=True)))
    picked = list(range(base, len(grow)))
    merge(chk, par.pmap(gen_chunk, [(picked, gsize), (picked[::-1], gsize)]), 'genhist_', agg)
    merge(chk, par.pmap(inst_chunk, [(picked, gsize), (picked[::-1], gsize)]), 'insthist_', agg)
    chk.set('evaluations', sum(v for k, v in agg.items() if k.endswith('_evals')))
    chk.set('distinct_nontrivial', agg.get('mp_applicable', 0) + agg.get('gen_applicable', 0) + agg.get('inst_applicable', 0)
            + agg.get('inst_inapplicable', 0))
    chk.set('rule', 'all ordered premise pairs for modus ponens, all (premise, variable) for generalization, all (premise, map) for '
                    'instantiation, each on two interpreters; non-trivial = the documented rule applies (or, for instantiation, a declared '
                    'constraint is violated)')
    chk.set('exhaustive', True)
    chk.set('detail', agg)
    chk.set('bounds', {'conclusions_mp': len(C), 'conclusions_gen_inst': len(grow)})
    chk.sample({'modus_ponens': [str(C[-20]), str(C[-3])]})
    chk.sample({'exists_generalization': [str(C[-1]), 'x1']})
    chk.assume('documented rule = docs/proof-language.md (ModusPonens, Generalization, InstantiateSchema) evaluated with the reference judgements of mc/refmachine.py')
    return chk.finish()


if __name__ == '__main__':
    sys.exit(main(sys.argv[1:]))
