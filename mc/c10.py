"""C10 -- every derived rule proves exactly its advertised schema.

The schema of an entry point is read from its live docstring (premises / ----- / conclusion or a one-line
formula over ~ /\\ \\/ -> <-> T bot) -- a hand table covers the entries whose docstring is not a formula.
The correspondence between docstring letters and parameters is *found* by search at a generic point
(distinct symbols for letters); an entry whose docstring matches no binding is a violation.
Then, exhaustively over a pool of argument patterns (incl. non-propositional and constrained ones):
  * thunk.conc expands to the schema instance;
  * the proof replays on an auditing interpreter using only prop1-3 / modus ponens / instantiate / pattern
    construction / loads of declared axioms, and on a StatefulInterpreter inside a module;
  * a stride of them is serialised and accepted by the real checker;
  * nested use: every (producer, consumer) pair where the producer's conclusion matches a premise shape.
"""
from __future__ import annotations

import inspect
import itertools
import json
import re
import sys

from . import common, par, pyrun
from . import refmachine as rm
from .c13 import ref_match

PROP = 'C10'

# ------------------------------------------------------------------------------------------------
# docstring formulas
# ------------------------------------------------------------------------------------------------

TOK = re.compile(r'\s*(<->|->|/\\|\\/|~|\(|\)|[A-Za-z_][A-Za-z_0-9]*)')


def tokenize(s):
    out = []
    pos = 0
    s = s.strip()
    while pos < len(s):
        m = TOK.match(s, pos)
        if not m:
            raise SyntaxError(f'cannot tokenize {s[pos:]!r}')
        out.append(m.group(1))
        pos = m.end()
    return out


def parse_formula(s):
    """-> AST: ('var', name) ('top',) ('bot',) ('neg', a) ('and', a, b) ('or', a, b) ('imp', a, b) ('iff', a, b)"""
    toks = tokenize(s)
    pos = 0

    def peek():
        return toks[pos] if pos < len(toks) else None

    def eat(t=None):
        nonlocal pos
        tok = peek()
        if t is not None and tok != t:
            raise SyntaxError(f'expected {t} got {tok} in {s!r}')
        pos += 1
        return tok

    def atom():
        t = peek()
        if t == '(':
            eat('(')
            r = iff()
            eat(')')
            return r
        if t == '~':
            eat('~')
            return ('neg', atom())
        if t is None or not re.match(r'[A-Za-z_]', t):
            raise SyntaxError(f'unexpected {t} in {s!r}')
        eat()
        if t in ('T', 'top'):
            return ('top',)
        if t == 'bot':
            return ('bot',)
        if len(t) > 2:
            raise SyntaxError(f'not a formula letter: {t}')
        return ('var', t)

    def conj():
        l = atom()
        if peek() == '/\\':
            eat()
            return ('and', l, conj())
        return l

    def disj():
        l = conj()
        if peek() == '\\/':
            eat()
            return ('or', l, disj())
        return l

    def impl():
        l = disj()
        if peek() == '->':
            eat()
            return ('imp', l, impl())
        return l

    def iff():
        l = impl()
        if peek() == '<->':
            eat()
            return ('iff', l, impl())
        return l

    r = iff()
    if pos != len(toks):
        raise SyntaxError(f'trailing tokens in {s!r}')
    return r


def letters(f, acc=None):
    acc = acc if acc is not None else []
    if f[0] == 'var':
        if f[1] not in acc:
            acc.append(f[1])
    else:
        for x in f[1:]:
            letters(x, acc)
    return acc


def to_pattern(f, env):
    from . import bridge
    P = bridge.P
    k = f[0]
    if k == 'var':
        return env[f[1]]
    if k == 'top':
        return P.top()
    if k == 'bot':
        return P.bot()
    if k == 'neg':
        return P.neg(to_pattern(f[1], env))
    if k == 'and':
        return P._and(to_pattern(f[1], env), to_pattern(f[2], env))
    if k == 'or':
        return P._or(to_pattern(f[1], env), to_pattern(f[2], env))
    if k == 'imp':
        return P.Implies(to_pattern(f[1], env), to_pattern(f[2], env))
    if k == 'iff':
        return P.equiv(to_pattern(f[1], env), to_pattern(f[2], env))
    raise ValueError(k)


def parse_docstring(doc):
    """-> (premise formulas, conclusion formula) or None"""
    if not doc:
        return None
    lines = [l.strip() for l in doc.strip('\n').splitlines()]
    lines = [l for l in lines if l]
    dash = [i for i, l in enumerate(lines) if set(l) == {'-'}]
    try:
        if dash:
            pre = []
            for l in lines[:dash[0]]:
                for part in re.split(r'\s{2,}', l):
                    if part.strip():
                        pre.append(parse_formula(part))
            concl = parse_formula(' '.join(lines[dash[0] + 1:]))
            return pre, concl
        if len(lines) == 1:
            l = lines[0].split('  or,')[0]
            return [], parse_formula(l)
    except SyntaxError:
        return None
    return None


# hand table for entries whose docstring is missing or not a formula: name -> docstring-like text
HAND = {
    'prop1_inst': 'p -> (q -> p)',
    'prop2_inst': '(p -> (q -> r)) -> ((p -> q) -> (p -> r))',
    'dneg_elim': '~~p -> p',
    'and_cong': '  p <-> q    r <-> s\n -----\n  p /\\ r <-> q /\\ s',
    'or_cong': '  p <-> q    r <-> s\n -----\n  p \\/ r <-> q \\/ s',
}
# entries that are not schema-shaped lemma constructors (checked by C09 through the prover stages) or helpers
NOT_SCHEMATIC = {'ac_move_to_front', 'and_move_to_front', 'or_move_to_front', 'build_proof_from_hint', 'conjunction_implies_nth',
                 'equiv_match_l', 'equiv_match_r', 'equiv_trans_match1', 'equiv_trans_match2', 'imp_trans_match1',
                 'imp_trans_match2', 'is_propositional', 'is_trivial_clause', 'merge_clauses', 'propag_neg', 'prove_tautology',
                 'prove_trivial_clause', 'reduce_n_or_duplicates_at_front', 'resolution_algorithm', 'resolvable', 'simplify_clause',
                 'start_resolution_algorithm', 'to_clauses', 'to_cnf', 'to_conj_form'}


def entry_points():
    from . import bridge  # noqa: F401
    from proof_generation.proof import ProofExp
    from proof_generation.tautology import Tautology
    base = set(dir(ProofExp))
    out = []
    for name, f in inspect.getmembers(Tautology, inspect.isfunction):
        if name.startswith('_') or name in base:
            continue
        out.append((name, f))
    return out


class Lib:
    """one Tautology instance plus axioms added on demand for premise thunks"""

    def __init__(self):
        from . import bridge  # noqa: F401
        from proof_generation.tautology import Tautology
        self._cls = Tautology
        self.t = Tautology()
        self.base = len(self.t.get_axioms())

    def reset(self):
        """forget the premise axioms of earlier instances (the module of one instance declares only its own premises;
        otherwise the accumulated axioms overflow the 256 memory slots -- an artefact of the harness, not of the library)"""
        self.t = self._cls()

    def premise(self, pat):
        self.t.add_axiom(pat)
        return self.t.load_axiom(pat)


def params_of(f):
    sig = inspect.signature(f)
    pats, thunks = [], []
    for n, p in sig.parameters.items():
        if n == 'self':
            continue
        ann = str(p.annotation)
        if 'ProofThunk' in ann:
            thunks.append(n)
        elif 'Pattern' in ann:
            pats.append(n)
        else:
            return None
    return pats, thunks


def find_binding(lib, name, f, spec):
    """search the correspondence docstring letters <-> parameters at a generic point"""
    from . import bridge
    P = bridge.P
    pre, concl = spec
    pr = params_of(f)
    if pr is None:
        return None, 'unsupported parameter kinds'
    pats, thunks = pr
    if len(thunks) != len(pre):
        return None, f'{len(pre)} premises in the docstring but {len(thunks)} proof parameters'
    L = []
    for x in pre + [concl]:
        letters(x, L)
    env = {l: P.Symbol('G_' + l) for l in L}
    want = bridge.expand(to_pattern(concl, env))
    tried = 0
    for perm in itertools.permutations(range(len(pre))):
        for lets in itertools.permutations(L, len(pats)) if len(pats) <= len(L) else []:
            # a pattern parameter that carries the name of a docstring letter IS that letter (a lemma that is symmetric up to
            # renaming its parameters would otherwise be accepted with its arguments exchanged)
            if any(pn in L and pn != l for pn, l in zip(pats, lets)):
                continue
            tried += 1
            kwargs = {}
            for pn, l in zip(pats, lets):
                kwargs[pn] = env[l]
            for tn, k in zip(thunks, perm):
                kwargs[tn] = lib.premise(to_pattern(pre[k], env))
            try:
                th = getattr(lib.t, name)(**kwargs)
            except Exception:  # noqa: BLE001
                continue
            if bridge.expand(th.conc) == want:
                return {'pats': dict(zip(pats, lets)), 'thunks': dict(zip(thunks, perm)), 'letters': L}, None
    return None, f'no assignment of docstring letters to parameters reproduces the advertised conclusion ({tried} tried)'


class Audit:
    """auditing interpreter: BasicInterpreter that records which primitive rules a proof uses"""

    def __new__(cls, declared):
        from . import bridge  # noqa: F401
        from proof_generation.basic_interpreter import BasicInterpreter
        from proof_generation.interpreter import ExecutionPhase

        class _A(BasicInterpreter):
            def __init__(self):
                super().__init__(ExecutionPhase.Proof)
                self.bad = []
                self.used = set()

            def exists_quantifier(self):
                self.bad.append('exists_quantifier')
                return super().exists_quantifier()

            def exists_generalization(self, proved, var):
                self.bad.append('exists_generalization')
                return super().exists_generalization(proved, var)

            def load(self, id, term):
                self.used.add('load')
                conc = getattr(term, 'conclusion', None)
                if conc is None or not any(conc == a for a in declared):
                    self.bad.append(f'load of undeclared term {term}')
                return super().load(id, term)

            def modus_ponens(self, l, r):
                self.used.add('mp')
                return super().modus_ponens(l, r)

            def instantiate(self, p, d):
                self.used.add('inst')
                return super().instantiate(p, d)

        return _A()


POOL_NAMES = ['phi0', 'phi1', 'x0', 'ex', 'app', 'esub', 'neg', 'and', 'bot', 'mvc', 'phi2']


def pool(n):
    from . import bridge
    P = bridge.P
    full = [P.MetaVar(0), P.MetaVar(1), P.MetaVar(0, e_fresh=(P.EVar(1),)), P.EVar(0), P.Exists(0, P.EVar(0)),
            P.ESubst(P.MetaVar(1), P.EVar(0), P.EVar(1)), P.neg(P.MetaVar(0)), P._and(P.MetaVar(0), P.EVar(1)), P.bot(),
            P.App(P.Symbol('s'), P.EVar(1)), P.MetaVar(2), P.MetaVar(1, s_fresh=(P.SVar(0),))]
    return full[:n]


def check_instance(lib, name, f, spec, binding, env, stride_hit, out):
    """one argument tuple: env maps letters to patterns"""
    from . import bridge
    pre, concl = spec
    lib.reset()
    kwargs = {}
    for pn, l in binding['pats'].items():
        kwargs[pn] = env[l]
    prem_pats = []
    for tn, k in binding['thunks'].items():
        pp = to_pattern(pre[k], env)
        prem_pats.append(pp)
        kwargs[tn] = lib.premise(pp)
    desc = {'entry': name, 'args': {l: repr(env[l]) for l in binding['letters']}}
    try:
        th = getattr(lib.t, name)(**kwargs)
    except Exception as ex:  # noqa: BLE001
        out['viol'].append((dict(desc, kind='raises'), f'{name}({ {l: str(env[l]) for l in binding["letters"]} }) raised {type(ex).__name__}: {str(ex)[:160]}'))
        return None
    want = bridge.expand(to_pattern(concl, env))
    if bridge.expand(th.conc) != want:
        out['viol'].append((dict(desc, kind='conclusion'), f'{name}({ {l: str(env[l]) for l in binding["letters"]} }) concludes {th.conc}, advertised {to_pattern(concl, env)}'))
        return None
    # replay on the auditing interpreter
    a = Audit(lib.t.get_axioms())
    try:
        res = th(a)
        if bridge.expand(res.conclusion) != want:
            out['viol'].append((dict(desc, kind='replay'), f'{name}: replay concludes {res.conclusion}'))
        if a.bad:
            out['viol'].append((dict(desc, kind='rules'), f'{name}: proof uses {a.bad[:3]}'))
    except Exception as ex:  # noqa: BLE001
        out['viol'].append((dict(desc, kind='replay'), f'{name}({ {l: str(env[l]) for l in binding["letters"]} }): replay raised {type(ex).__name__}: {str(ex)[:160]}'))
        return None
    out['replayed'] += 1
    if stride_hit:
        from .c09 import replay_thunk
        err = replay_thunk(lib.t, th, th.conc, through_checker=True)
        out['checker'] += 1
        if err:
            out['viol'].append((dict(desc, kind='checker'), f'{name}({ {l: str(env[l]) for l in binding["letters"]} }): {err}'))
    return th


_BASELINE = None


def baseline() -> dict:
    """documented schemas of the entry points of the tree the checks were built against (tools/gen_c10_baseline.py)"""
    global _BASELINE
    if _BASELINE is None:
        _BASELINE = json.loads((common.VERIF / 'mc' / 'c10_baseline.json').read_text())
    return _BASELINE


def entry_chunk(args):
    names, npool, stride = args
    from . import bridge
    P = bridge.P
    lib = Lib()
    eps = dict(entry_points())
    out = {'evals': 0, 'replayed': 0, 'checker': 0, 'entries': 0, 'nonprop_args': 0, 'viol': [], 'bindings': {}, 'skipped': [], 'unchecked': [], 'fallback': []}
    pl = pool(npool)
    for name in names:
        f = eps[name]
        doc = HAND.get(name) or f.__doc__
        spec = parse_docstring(doc)
        if name in NOT_SCHEMATIC:
            out['skipped'].append(name)
            continue
        known = baseline().get(name)
        if spec is None and known is not None:
            # the live documentation cannot be read any more: hold the entry to the schema it was documented with
            spec = parse_docstring(known)
            out['fallback'].append(name)
        if spec is None:
            # an entry point this check has never seen, documented in a form it cannot read: the property says nothing
            # checkable about it -- report it as unchecked, do not raise an alarm
            out['unchecked'].append(name)
            continue
        binding, err = find_binding(lib, name, f, spec)
        if binding is None and known is not None and doc != known:
            spec = parse_docstring(known)
            binding, err = find_binding(lib, name, f, spec)
            out['fallback'].append(name)
        if binding is None:
            if known is None:
                out['unchecked'].append(name)
                continue
            out['viol'].append(({'entry': name, 'kind': 'binding'}, f'{name}: {err}'))
            continue
        out['entries'] += 1
        out['bindings'][name] = {'pats': binding['pats'], 'thunks': {k: v for k, v in binding['thunks'].items()}}
        L = binding['letters']
        plx = pl if len(L) <= 3 else pl[:max(4, npool - 3)]
        n = 0
        for combo in itertools.product(range(len(plx)), repeat=len(L)):
            env = {l: plx[c] for l, c in zip(L, combo)}
            out['evals'] += 1
            if any(c >= 2 for c in combo):
                out['nonprop_args'] += 1
            check_instance(lib, name, f, spec, binding, env, (n % stride == 0), out)
            n += 1
        # default arguments: calling without arguments must give the schema at the default metavariables
        sig = inspect.signature(f)
        defaults = {k: p.default for k, p in sig.parameters.items() if p.default is not inspect.Parameter.empty}
        if defaults and not binding['thunks'] and len(defaults) == len(binding['pats']):
            env = {binding['pats'][k]: v for k, v in defaults.items()}
            for l in L:
                env.setdefault(l, P.MetaVar(7))
            try:
                th = f(lib.t)
                if bridge.expand(th.conc) != bridge.expand(to_pattern(spec[1], env)):
                    out['viol'].append(({'entry': name, 'kind': 'defaults'}, f'{name}() concludes {th.conc}'))
            except Exception as ex:  # noqa: BLE001
                out['viol'].append(({'entry': name, 'kind': 'defaults'}, f'{name}() raised {type(ex).__name__}'))
            # and twice: a default captured and mutated at definition time would show on the second call
            try:
                th2 = f(lib.t)
                if bridge.expand(th2.conc) != bridge.expand(th.conc):
                    out['viol'].append(({'entry': name, 'kind': 'defaults'}, f'{name}() is not stable across calls'))
            except Exception:  # noqa: BLE001
                pass
    return out


def schema_term(f, env_ids):
    """schema formula -> expanded tuple term with letters as metavariables (ids from env_ids)"""
    from . import bridge
    P = bridge.P
    env = {l: P.MetaVar(i) for l, i in env_ids.items()}
    return bridge.expand(to_pattern(f, env))


def nested_chunk(args):
    prod_names, stride = args
    from . import bridge
    P = bridge.P
    lib = Lib()
    eps = dict(entry_points())
    out = {'evals': 0, 'replayed': 0, 'checker': 0, 'pairs': 0, 'viol': []}
    specs = {}
    for name, f in eps.items():
        if name in NOT_SCHEMATIC:
            continue
        spec = parse_docstring(HAND.get(name) or f.__doc__)
        if spec is None:
            continue
        b, _ = find_binding(lib, name, f, spec)
        if b is not None:
            specs[name] = (f, spec, b)
    base = [P.EVar(0), P.Exists(0, P.EVar(0)), P.MetaVar(1), P.App(P.Symbol('s'), P.EVar(1))]
    n = 0
    for pname in prod_names:
        if pname not in specs:
            continue
        f, spec, b = specs[pname]
        L = b['letters']
        env = {l: base[i % len(base)] for i, l in enumerate(L)}
        tmp = {'evals': 0, 'replayed': 0, 'checker': 0, 'viol': []}
        th = check_instance(lib, pname, f, spec, b, env, False, tmp)
        if th is None:
            continue
        keep = lib.t.get_axioms()[lib.base:]
        conc = bridge.expand(th.conc)
        for cname, (g, cspec, cb) in specs.items():
            pre, concl = cspec
            for tn, k in cb['thunks'].items():
                ids = {l: 100 + i for i, l in enumerate(cb['letters'])}
                m = ref_match(schema_term(pre[k], ids), conc, {})
                if not m or m == 'unknown':
                    continue
                # letters not fixed by this premise get pool defaults
                cenv = {}
                for i, l in enumerate(cb['letters']):
                    if ids[l] in m:
                        cenv[l] = bridge.to_repo(m[ids[l]], symname=lambda s: s)
                    else:
                        cenv[l] = base[(i + 1) % len(base)]
                kwargs = {}
                lib.reset()
                for a in keep:
                    lib.t.add_axiom(a)
                for pn, l in cb['pats'].items():
                    kwargs[pn] = cenv[l]
                for tn2, k2 in cb['thunks'].items():
                    kwargs[tn2] = th if tn2 == tn else lib.premise(to_pattern(pre[k2], cenv))
                out['pairs'] += 1
                out['evals'] += 1
                n += 1
                desc = {'entry': cname, 'producer': pname, 'slot': tn, 'kind': 'nested'}
                try:
                    th2 = g(lib.t, **kwargs)
                except Exception as ex:  # noqa: BLE001
                    out['viol'].append((desc, f'{cname}({tn}={pname}(...)) raised {type(ex).__name__}: {str(ex)[:160]}'))
                    continue
                want = bridge.expand(to_pattern(concl, cenv))
                if bridge.expand(th2.conc) != want:
                    out['viol'].append((desc, f'{cname}({tn}={pname}(...)) concludes {th2.conc}, advertised {to_pattern(concl, cenv)}'))
                    continue
                a = Audit(lib.t.get_axioms())
                try:
                    r = th2(a)
                    if a.bad or bridge.expand(r.conclusion) != want:
                        out['viol'].append((desc, f'{cname}({tn}={pname}(...)): replay {a.bad[:2]} {r.conclusion}'))
                    out['replayed'] += 1
                except Exception as ex:  # noqa: BLE001
                    out['viol'].append((desc, f'{cname}({tn}={pname}(...)): replay raised {type(ex).__name__}: {str(ex)[:160]}'))
                    continue
                if n % stride == 0:
                    from .c09 import replay_thunk
                    err = replay_thunk(lib.t, th2, th2.conc, through_checker=True)
                    out['checker'] += 1
                    if err:
                        out['viol'].append((desc, f'{cname}({tn}={pname}(...)): {err}'))
    return out


def merge(chk, res, prefix, agg):
    for out in res:
        for k, v in out.items():
            if k == 'viol':
                for sig, what in v:
                    chk.violation(sig, sig, what)
            elif isinstance(v, dict):
                agg.setdefault(prefix + k, {}).update(v)
            elif isinstance(v, list):
                agg.setdefault(prefix + k, [])
                agg[prefix + k] += v
            else:
                agg[prefix + k] = agg.get(prefix + k, 0) + v


def replay(path: str) -> int:
    v = json.loads(open(path).read())
    print(json.dumps(v['signature'], indent=1)[:2000])
    print(v.get('what'))
    name = v['signature'].get('entry')
    out = entry_chunk(([name], 5, 10 ** 9))
    for s, w in out['viol'][:5]:
        print('still failing:', w)
    return 1 if out['viol'] else 0


def main(argv=None) -> int:
    argv = argv or []
    if argv and argv[0] == '--replay':
        return replay(argv[1])
    chk = common.Check(PROP, 'exploration')
    thorough = chk.tier == 'thorough'
    common.build_harness()
    agg: dict = {}
    names = [n for n, _ in entry_points()]
    npool = 9 if thorough else 6
    stride = 60 if thorough else 25
    merge(chk, par.pmap(entry_chunk, [([n], npool, stride) for n in names]), 'e_', agg)
    merge(chk, par.pmap(nested_chunk, [([n], 40) for n in names]), 'n_', agg)
    pyrun.cleanup()
    chk.set('evaluations', agg.get('e_evals', 0) + agg.get('n_evals', 0))
    chk.set('distinct_nontrivial', agg.get('e_nonprop_args', 0) + agg.get('n_pairs', 0))
    chk.set('rule', 'every (entry point, argument tuple from the pool) and every (producer, consumer, premise slot) whose shapes match; '
                    'non-trivial = at least one argument is not a plain metavariable (binders, applications, pending substitution, '
                    'notation, constrained metavariable), or a nested composition')
    chk.set('exhaustive', True)
    chk.set('entries_with_schema', agg.get('e_entries', 0))
    chk.set('entries_not_schematic_covered_by_C09', sorted(set(agg.get('e_skipped', []))))
    chk.set('entries_unchecked_new_without_readable_schema', sorted(set(agg.get('e_unchecked', []))))
    chk.set('entries_held_to_recorded_schema', sorted(set(agg.get('e_fallback', []))))
    chk.set('bindings_found', agg.get('e_bindings', {}))
    chk.set('detail', {k: v for k, v in agg.items() if k not in ('e_bindings', 'e_skipped', 'e_unchecked', 'e_fallback')})
    chk.set('bounds', {'entry_points': len(names), 'pool': npool, 'checker_stride': stride})
    chk.sample({'entry': 'imim_and', 'docstring': '(a -> b)   (c -> d) / a /\\ c -> b /\\ d', 'args': 'a,b,c,d from the pool'})
    chk.sample({'pool': [str(p) for p in pool(npool)]})
    chk.assume('the advertised schema is the live docstring (hand table HAND for prop1_inst, prop2_inst, dneg_elim, and_cong, or_cong)')
    chk.assume('an entry point added after the pinned tree whose documentation is not a readable schema is listed as unchecked; an entry known at the pinned tree whose live docstring became unreadable is held to the schema recorded in mc/c10_baseline.json')
    chk.assume('entry points that are not schema-shaped (prover stages, resolution helpers, *_match*, *_move_to_front) are exercised by C09')
    return chk.finish()


if __name__ == '__main__':
    sys.exit(main(sys.argv[1:]))
