"""E6 -- explicit-state exploration of the proof-DSL interpreters (real SerializingInterpreter objects).

A state is the history of interpreter calls that reaches it. Each transition calls one real interpreter
method with arguments taken from the tracker's own stack (the way deserialisation and ProofExp drive it);
a call that raises ends the branch (the properties quantify over accepted sequences). States are
deduplicated on a canonical form of (phase, stack, memory, remaining claims, symbol table, ghosts).
"""
from __future__ import annotations

import io

from . import common

common.setup_repo_path()

from proof_generation.claim import Claim  # noqa: E402
from proof_generation.interpreter import ExecutionPhase  # noqa: E402
from proof_generation.proved import Proved  # noqa: E402
from proof_generation.serializing_interpreter import SerializingInterpreter  # noqa: E402
import proof_generation.pattern as P  # noqa: E402
from frozendict import frozendict  # noqa: E402

from . import bridge  # noqa: E402
from . import refmachine as rm  # noqa: E402


class Buf(io.BytesIO):
    """in-memory file that survives close() (IOInterpreter closes its files on phase change)"""

    def close(self):  # noqa: D401
        pass


DECLARED_CLAIMS = [P.Implies(P.MetaVar(0), P.MetaVar(0)), P.Exists(0, P.EVar(0))]


def symbol_table(it) -> dict:
    """name -> number table of a serialising interpreter, found by shape (a dict from str to int) rather than by name"""
    out = {}
    for v in vars(it).values():
        if isinstance(v, dict) and v and all(isinstance(k, str) and isinstance(x, int) for k, x in v.items()):
            out.update(v)
    return out


class Sim:
    """a real SerializingInterpreter plus what the harness needs to snapshot / restore it"""

    def __init__(self, claims=None):
        self.bufs = [Buf(), Buf(), Buf()]
        cl = [Claim(c) for c in (DECLARED_CLAIMS if claims is None else claims)]
        self.it = SerializingInterpreter(ExecutionPhase.Gamma, self.bufs[0], cl, self.bufs[1], self.bufs[2])
        self.ghosts: list[int] = []      # indices of tracker stack entries already consumed by a publish
        self.published_claims = 0

    def snapshot(self):
        """generic over the interpreter's attributes (no private names): containers are copied, the rest kept by reference"""
        it = self.it
        attrs = {}
        for k, v in vars(it).items():
            if isinstance(v, (list, dict, set)):
                attrs[k] = type(v)(v)
            else:
                attrs[k] = v
        return (attrs, [b.tell() for b in self.bufs], list(self.ghosts), self.published_claims)

    def restore(self, s):
        it = self.it
        attrs, lens, gh, pc = s
        for k in list(vars(it)):
            if k not in attrs:
                delattr(it, k)
        for k, v in attrs.items():
            setattr(it, k, type(v)(v) if isinstance(v, (list, dict, set)) else v)
        for b, n in zip(self.bufs, lens):
            b.seek(n)
            b.truncate(n)
        self.ghosts = list(gh)
        self.published_claims = pc

    def bytes3(self):
        return tuple(b.getvalue() for b in self.bufs)

    def phase_no(self) -> int:
        return self.it.phase.value


# ------------------------------------------------------------------------------------------------
# events
# ------------------------------------------------------------------------------------------------

class Inapplicable(Exception):
    pass


def _top(sim, n=1, kind=None):
    st = sim.it.stack
    if len(st) < n:
        raise Inapplicable()
    xs = st[-n:]
    return xs


def _pat(x):
    if isinstance(x, Proved):
        raise Inapplicable()
    return x


def _prf(x):
    if not isinstance(x, Proved):
        raise Inapplicable()
    return x


def ev_push(kind, *a):
    def f(sim):
        it = sim.it
        if kind == 'evar':
            return it.evar(a[0])
        if kind == 'svar':
            return it.svar(a[0])
        if kind == 'symbol':
            return it.symbol(a[0])
        if kind == 'metavar':
            return it.metavar(a[0], *a[1:])
        raise ValueError(kind)
    return f


def ev_binary(name):
    def f(sim):
        l, r = _top(sim, 2)
        return getattr(sim.it, name)(_pat(l), _pat(r))
    return f


def ev_binder(name, var):
    def f(sim):
        (b,) = _top(sim, 1)
        return getattr(sim.it, name)(var, _pat(b))
    return f


def ev_subst(name, var):
    def f(sim):
        plug, head = _top(sim, 2)
        head = _pat(head)
        if not isinstance(head, (P.MetaVar, P.ESubst, P.SSubst)):
            raise Inapplicable()
        return getattr(sim.it, name)(var, head, _pat(plug))
    return f


def ev_axiom(name):
    def f(sim):
        return getattr(sim.it, name)()
    return f


def ev_mp(sim):
    l, r = _top(sim, 2)
    return sim.it.modus_ponens(_prf(l), _prf(r))


def ev_gen(var):
    def f(sim):
        (p,) = _top(sim, 1)
        return sim.it.exists_generalization(_prf(p), P.EVar(var))
    return f


def ev_inst(keys):
    def f(sim):
        n = len(keys)
        xs = _top(sim, n + 1)
        target = xs[-1]
        plugs = [_pat(x) for x in xs[:-1]]
        delta = dict(zip(keys, plugs))
        if isinstance(target, Proved):
            return sim.it.instantiate(target, delta)
        return sim.it.instantiate_pattern(target, delta)
    return f


def ev_pop(sim):
    (t,) = _top(sim, 1)
    return sim.it.pop(t)


def _label(t) -> str:
    """labels as the toolkit's own callers build them (MemoizingInterpreter: str(pattern); ProofExp.load_axiom:
    'Axiom ' + str(axiom)): not injective -- constraints of a metavariable are not printed"""
    return f'Axiom {t.conclusion}' if isinstance(t, Proved) else str(t)


def ev_save(sim):
    (t,) = _top(sim, 1)
    return sim.it.save(_label(t), t)


def ev_load(i):
    def f(sim):
        if i >= len(sim.it.memory):
            raise Inapplicable()
        return sim.it.load(_label(sim.it.memory[i]), sim.it.memory[i])
    return f


def ev_publish(sim):
    it = sim.it
    (t,) = _top(sim, 1)
    if it.phase == ExecutionPhase.Gamma:
        r = it.publish_axiom(_pat(t))
    elif it.phase == ExecutionPhase.Claim:
        # only the declared claims, in the order ProofExp publishes them (reversed declaration order)
        decl = [c.pattern for c in it.claims]
        k = sim.published_claims
        if k >= len(decl) or not (decl[len(decl) - 1 - k] == _pat(t)):
            raise Inapplicable()
        r = it.publish_claim(t)
        sim.published_claims += 1
    else:
        r = it.publish_proof(_prf(t))
    sim.ghosts.append(len(it.stack) - 1)
    return r


def ev_phase(sim):
    it = sim.it
    if it.phase == ExecutionPhase.Gamma:
        it.into_claim_phase()
    elif it.phase == ExecutionPhase.Claim:
        if sim.published_claims != len(it.claims):
            raise Inapplicable()      # ProofExp publishes every declared claim before the proof phase
        it.into_proof_phase()
    else:
        raise Inapplicable()
    sim.ghosts = []
    return None


def ev_pattern(p):
    def f(sim):
        return sim.it.pattern(p)
    return f


E0, S0 = (P.EVar(0),), (P.SVar(0),)

RAW_EVENTS = [
    ('evar 0', ev_push('evar', 0)), ('evar 1', ev_push('evar', 1)), ('svar 0', ev_push('svar', 0)),
    ('symbol a', ev_push('symbol', 'a')), ('symbol 1', ev_push('symbol', '1')),   # a numeral as NAME
    ('metavar 0', ev_push('metavar', 0)), ('metavar 1', ev_push('metavar', 1)), ('metavar 10', ev_push('metavar', 10)),
    ('metavar 0 e_fresh x0', ev_push('metavar', 0, E0)), ('metavar 1 s_fresh X0', ev_push('metavar', 1, (), S0)),
    ('metavar 0 positive X0', ev_push('metavar', 0, (), (), S0)),
    ('metavar 0 holes x1', ev_push('metavar', 0, (), (), (), (), (P.EVar(1),))),
    ('metavar 1 negative X0 holes x1 x0', ev_push('metavar', 1, (), (), (), S0, (P.EVar(1), P.EVar(0)))),
    ('implies', ev_binary('implies')), ('app', ev_binary('app')),
    ('exists 0', ev_binder('exists', 0)), ('exists 1', ev_binder('exists', 1)), ('mu 0', ev_binder('mu', 0)),
    ('esubst 0', ev_subst('esubst', 0)), ('esubst 1', ev_subst('esubst', 1)), ('ssubst 0', ev_subst('ssubst', 0)),
    ('prop1', ev_axiom('prop1')), ('prop2', ev_axiom('prop2')), ('prop3', ev_axiom('prop3')),
    ('exists_quantifier', ev_axiom('exists_quantifier')),
    ('modus_ponens', ev_mp), ('generalization x0', ev_gen(0)), ('generalization x1', ev_gen(1)),
    ('instantiate ()', ev_inst(())),
    ('instantiate (0)', ev_inst((0,))), ('instantiate (1)', ev_inst((1,))), ('instantiate (2)', ev_inst((2,))),
    ('instantiate (0,1)', ev_inst((0, 1))), ('instantiate (1,0)', ev_inst((1, 0))), ('instantiate (0,2)', ev_inst((0, 2))),
    ('instantiate (2,0)', ev_inst((2, 0))), ('instantiate (1,2)', ev_inst((1, 2))), ('instantiate (2,1)', ev_inst((2, 1))),
    ('instantiate (1,10)', ev_inst((1, 10))), ('instantiate (10,1)', ev_inst((10, 1))),
    ('pop', ev_pop), ('save', ev_save), ('load 0', ev_load(0)), ('load 1', ev_load(1)), ('load 2', ev_load(2)),
    ('publish', ev_publish), ('next phase', ev_phase),
]

MACRO_POOL = [
    P.Implies(P.MetaVar(0), P.MetaVar(0)), P.Exists(0, P.EVar(0)), P.neg(P.MetaVar(0)), P._and(P.MetaVar(0), P.EVar(1)),
    P.ESubst(P.MetaVar(0), P.EVar(0), P.EVar(1)), P.Mu(0, P.SVar(0)), P.top(), P.MetaVar(1, e_fresh=(P.EVar(0),)),
    P.App(P.Symbol('a'), P.EVar(0)), P.equiv(P.MetaVar(0), P.MetaVar(1)), P.Implies(P.Symbol('1'), P.Symbol('a')),
    P.SSubst(P.MetaVar(0), P.SVar(0), P.EVar(0)),
    P.Instantiate(P.Implies(P.MetaVar(0), P.MetaVar(1)), frozendict({1: P.EVar(0), 0: P.Symbol('a')})),
]
MACRO_EVENTS = [(f'pattern {p}', ev_pattern(p)) for p in MACRO_POOL]

EVENTS = dict(RAW_EVENTS + MACRO_EVENTS)


def arity(name: str) -> int:
    """how many entries from the top of the tracker stack the event reads"""
    k = name.split()[0]
    if k in ('implies', 'app', 'esubst', 'ssubst', 'modus_ponens'):
        return 2
    if k in ('exists', 'mu', 'generalization', 'pop', 'save', 'publish'):
        return 1
    if k == 'instantiate':
        inside = name[name.index('(') + 1:name.index(')')]
        return 1 + (len([x for x in inside.split(',') if x.strip()]))
    return 0


def touches_ghost(sim, name: str) -> bool:
    n = len(sim.it.stack)
    a = arity(name)
    return any(n - a <= g < n for g in sim.ghosts)


# alternative sets of declared claims, selected by a marker as first element of a history
CLAIM_SETS = {
    # one claim that is provable in one step and is NOT an axiom of the seed theories: prop1 itself
    'prop1': [P.Implies(P.MetaVar(0), P.Implies(P.MetaVar(1), P.MetaVar(0)))],
}


def replay_history(hist, claims=None) -> Sim:
    if hist and hist[0].startswith('@claims:'):
        claims = CLAIM_SETS[hist[0].split(':', 1)[1]]
        hist = hist[1:]
    sim = Sim(claims)
    for name in hist:
        EVENTS[name](sim)
    return sim


# ------------------------------------------------------------------------------------------------
# canonical forms
# ------------------------------------------------------------------------------------------------

def entry_term(x, symtab):
    """tracker entry -> ('P'|'T', tuple term with numbered symbols)"""
    if isinstance(x, Proved):
        return ('T', bridge.number_symbols(bridge.expand(x.conclusion), symtab))
    return ('P', bridge.number_symbols(bridge.expand(x), symtab))


def tracker_view(sim):
    """(stack without ghosts, memory, claims) as machine-comparable terms, using the serialiser's symbol table"""
    it = sim.it
    symtab = symbol_table(it)
    n0 = len(symtab)
    stack = tuple(entry_term(x, symtab) for i, x in enumerate(it.stack) if i not in sim.ghosts)
    memory = tuple(entry_term(x, symtab) for x in it.memory)
    claims = tuple(bridge.number_symbols(bridge.expand(c.pattern), symtab) for c in it.claims)
    return stack, memory, claims, len(symtab) != n0


def canon(sim) -> str:
    it = sim.it
    st = ';'.join(('T:' if isinstance(x, Proved) else 'P:') + rm.show(bridge.expand(x.conclusion if isinstance(x, Proved) else x))
                  for x in it.stack)
    me = ';'.join(('T:' if isinstance(x, Proved) else 'P:') + rm.show(bridge.expand(x.conclusion if isinstance(x, Proved) else x))
                  for x in it.memory)
    return f'{it.phase.value}|{st}|{me}|{len(it.claims)}|{sorted(symbol_table(it).items())}|{sim.ghosts}|{sim.published_claims}'


def explore_chunk_generic(histories, event_names, visit, claims=None, max_stack=5, max_mem=3, max_size=14):
    """expand each history by each event; `visit(sim, hist, event)` is called on every accepted child and returns a list
    of violations. Returns (children [(hist, canon)], stats, violations)."""
    children = []
    viols = []
    stats = {'transitions': 0, 'accepted': 0, 'raised': 0, 'capped': 0}
    for hist in histories:
        sim = replay_history(hist, claims)
        snap = sim.snapshot()
        for en in event_names:
            stats['transitions'] += 1
            try:
                EVENTS[en](sim)
            except Exception:  # noqa: BLE001  (assertion of the tracker = sequence not accepted)
                stats['raised'] += 1
                sim.restore(snap)
                continue
            stats['accepted'] += 1
            child = hist + (en,)
            viols += visit(sim, child)
            it = sim.it
            if len(it.stack) > max_stack or len(it.memory) > max_mem or any(
                    rm.size(bridge.expand(x.conclusion if isinstance(x, Proved) else x)) > max_size for x in it.stack):
                stats['capped'] += 1
            else:
                children.append((child, canon(sim)))
            sim.restore(snap)
    return children, stats, viols
