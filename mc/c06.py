"""C06 -- freshness and positivity judgements are sound for every instantiation.

Rust: every machine-constructible meta-pattern (<=4/5 nodes: constrained metavariables, stacked pending
substitutions, binders) x variable x {e_fresh, s_fresh, positive, negative}, judged by the real functions
through the harness. Python: Pattern.evar_is_free on the universe with notation.
Whenever a judgement answers true: every admissible concrete instantiation (ground truth from refpat) must
confirm it (free variables / polarity of the concrete instance)."""
from __future__ import annotations

import json
import sys

from . import common, par, refpat, universe
from . import refmachine as rm

PROP = 'C06'
FNS = ('e_fresh', 's_fresh', 'positive', 'negative')


def pool_for(k):
    P = universe.CONCRETE_POOL
    return P[:13] if k <= 1 else P[:9] if k == 2 else P[:5]


def confirm(fn, x, inst) -> bool:
    if fn == 'e_fresh':
        return ('e', x) not in refpat.fv(inst)
    if fn == 's_fresh':
        return ('s', x) not in refpat.fv(inst)
    if fn == 'positive':
        return refpat.occurs_only_positive(inst, x)
    return refpat.occurs_only_negative(inst, x)


def check_instances(t, fn, x):
    """returns (n_instances, counterexample or None)"""
    ids = refpat.mv_ids(t)
    n = 0
    for assign, inst, captured in refpat.instances(t, pool_for(len(ids))):
        if captured:
            continue
        n += 1
        if not confirm(fn, x, inst):
            return n, (assign, inst)
    return n, None


def rust_chunk(args):
    terms = args
    h = par.harness()
    reqs = []
    meta = []
    for t in terms:
        tb = universe.term_bytes(t).hex()
        for fn in FNS:
            for x in (0, 1):
                reqs.append(f'J {tb} {fn} {x}')
                meta.append((t, fn, x))
    ans = h.ask_many(reqs)
    out = {'evals': 0, 'true': 0, 'instances': 0, 'unconstructible': 0, 'agree_doc': 0, 'viol': [], 'true_by_fn': {}}
    for (t, fn, x), a in zip(meta, ans):
        out['evals'] += 1
        if a == 'REJECT':
            out['unconstructible'] += 1
            continue
        # the document's judgement (E2) for reference; disagreement alone is C05's business, but report it
        doc = getattr(rm, fn)(t, x)
        if (a == 'true') == doc:
            out['agree_doc'] += 1
        if a != 'true':
            continue
        out['true'] += 1
        out['true_by_fn'][fn] = out['true_by_fn'].get(fn, 0) + 1
        n, cex = check_instances(t, fn, x)
        out['instances'] += n
        if cex is not None:
            assign, inst = cex
            out['viol'].append(({'side': 'rust', 'fn': fn, 'var': x, 'term': rm.show(t)},
                                f'checker judges {fn}({x}) of {rm.show(t)} but the admissible instance '
                                f'{ {k: rm.show(v) for k, v in assign.items()} } gives {rm.show(inst)}'))
    return out


def stacked(heads):
    """all two-level stacks of pending substitutions (element / set variables 0 and 1 as variables and as plugs) on the heads"""
    from . import bridge
    P = bridge.P
    x0, x1, X0, X1 = P.EVar(0), P.EVar(1), P.SVar(0), P.SVar(1)
    layers = [(P.ESubst, x0), (P.ESubst, x1), (P.SSubst, X0), (P.SSubst, X1)]
    plugs = [x0, x1, X0, X1]
    out = []
    for hd in heads:
        for c1, v1 in layers:
            for p1 in plugs:
                inner = c1(hd, v1, p1)
                for c2, v2 in layers:
                    for p2 in plugs:
                        out.append(c2(inner, v2, p2))
                        if p2 is x0 and p1 is X0:
                            out.append(P.neg(c2(inner, v2, p2)))
    return out


def py_space(size):
    """Python patterns judged: the bounded universe plus STACKED pending substitutions (two levels, element and set
    variables 0/1 as variables and as plugs) on plain, singly and doubly constrained metavariables, bare and under neg"""
    from . import bridge
    P = bridge.P
    S = list(bridge.repo_universe(size, extra_meta=True))
    x0, x1, X0, X1 = P.EVar(0), P.EVar(1), P.SVar(0), P.SVar(1)
    heads = [P.MetaVar(0), P.MetaVar(0, e_fresh=(x0,), s_fresh=(X0,)), P.MetaVar(0, s_fresh=(X0,)), P.MetaVar(0, e_fresh=(x0,)),
             P.MetaVar(0, e_fresh=(x1,), s_fresh=(X1,)), P.MetaVar(0, e_fresh=(x0, x1)), P.MetaVar(0, s_fresh=(X0, X1))]
    return S + stacked(heads)


def py_chunk(args):
    rows, size = args
    from . import bridge
    S = py_space(size)
    out = {'evals': 0, 'true': 0, 'instances': 0, 'notation_cases': 0, 'viol': []}
    for i in rows:
        p = S[i]
        t = bridge.expand(p)
        # symbols are named in expand(); ground truth does not care
        for x in (0, 1):
            out['evals'] += 1
            try:
                got = p.evar_is_free(x)
            except Exception as ex:  # noqa: BLE001
                out['viol'].append(({'side': 'python', 'fn': 'evar_is_free', 'var': x, 'pattern': repr(p)}, f'raised {type(ex).__name__}'))
                continue
            if bridge.has_notation(p):
                out['notation_cases'] += 1
                plain = bridge.to_repo(t, symname=lambda n: n)
                if plain.evar_is_free(x) != got:
                    out['viol'].append(({'side': 'python', 'fn': 'evar_is_free/notation', 'var': x, 'pattern': repr(p)},
                                        f'evar_is_free({x}) is {got} on {p} but {not got} on its expansion'))
                    continue
            if not got:
                continue
            out['true'] += 1
            n, cex = check_instances(t, 'e_fresh', x)
            out['instances'] += n
            if cex is not None:
                assign, inst = cex
                out['viol'].append(({'side': 'python', 'fn': 'evar_is_free', 'var': x, 'pattern': repr(p)},
                                    f'evar_is_free({x}) holds of {p} but instance { {k: rm.show(v) for k, v in assign.items()} } '
                                    f'= {rm.show(inst)} has x{x} free'))
    return out


def merge(chk, res, prefix, agg):
    for out in res:
        for k, v in out.items():
            if k == 'viol':
                for sig, what in v:
                    chk.violation(sig, sig, what)
            elif isinstance(v, dict):
                d = agg.setdefault(prefix + k, {})
                for kk, vv in v.items():
                    d[kk] = d.get(kk, 0) + vv
            else:
                agg[prefix + k] = agg.get(prefix + k, 0) + v


def replay(path: str) -> int:
    v = json.loads(open(path).read())
    sig = v['signature']
    print(json.dumps(sig, indent=1))
    print(v.get('what'))
    if sig.get('side') == 'rust':
        t = rm.parse(sig['term'])
        h = common.Harness()
        a = h.ask(f'J {universe.term_bytes(t).hex()} {sig["fn"]} {sig["var"]}')
        print('checker judgement now:', a)
        if a != 'true':
            return 0
        n, cex = check_instances(t, sig['fn'], sig['var'])
        print('instances:', n, 'counterexample:', cex)
        return 1 if cex else 0
    return 1


def main(argv=None) -> int:
    argv = argv or []
    if argv and argv[0] == '--replay':
        return replay(argv[1])
    chk = common.Check(PROP, 'exploration')
    thorough = chk.tier == 'thorough'
    common.build_harness()
    agg: dict = {}
    n = common.ncpu() * 4
    mt = universe.meta(6 if thorough else 5, use_app=not thorough) if thorough else universe.meta(5)
    merge(chk, par.pmap(rust_chunk, par.chunks(mt, n)), 'rust_', agg)
    size = 4
    from . import bridge
    S = py_space(size)
    merge(chk, par.pmap(py_chunk, [(ch, size) for ch in par.chunks(list(range(len(S))), n)]), 'py_', agg)
    chk.set('evaluations', agg.get('rust_evals', 0) + agg.get('py_evals', 0))
    chk.set('distinct_nontrivial', agg.get('rust_true', 0) + agg.get('py_true', 0))
    chk.set('instances_checked', agg.get('rust_instances', 0) + agg.get('py_instances', 0))
    chk.set('rule', 'every (meta-pattern, variable, judgement) triple; non-trivial = the implementation answered true, and then every '
                    'admissible capture-free instantiation over the plug pool was checked against ground-truth free variables/polarity')
    chk.set('exhaustive', True)
    chk.set('detail', agg)
    chk.set('bounds', {'rust_terms': len(mt), 'python_patterns': len(S), 'pool': len(pool_for(1))})
    chk.sample({'rust': f'J {rm.show(mt[len(mt) // 2])} positive 0'})
    chk.sample({'python': f'{S[len(S) // 2]}.evar_is_free(0)'})
    chk.assume('ground truth: free variables and polarity of concrete instances computed by mc/refpat.py; instances whose pending '
               'substitutions would capture are skipped (the implementations refuse or are not asked to perform them)')
    return chk.finish()


if __name__ == '__main__':
    sys.exit(main(sys.argv[1:]))
