"""E7 -- reference for the Metamath core used by this repository's dialect (statements are lists of
S-expression terms; see metamath/ast.py): compressed-proof number codec and decoder per Appendix B of the
Metamath book, a verifier (scopes, $c $v $f $e $d $a $p, mandatory hypotheses in database order,
substitution, disjointness), a compressed-proof encoder, and small helpers to write databases.
Independent of the code under test: it works on its own token-level representation."""
from __future__ import annotations

# ------------------------------------------------------------------------------------------------
# Appendix B numbers
# ------------------------------------------------------------------------------------------------

LS = 'ABCDEFGHIJKLMNOPQRST'      # 1..20, least significant (and terminating) digit
MS = 'UVWXY'                     # 1..5, higher digits, base 5


def encode_number(n: int) -> str:
    assert n >= 1
    n -= 1
    s = LS[n % 20]
    n //= 20
    while n > 0:
        n -= 1
        s = MS[n % 5] + s
        n //= 5
    return s


def decode_word(w: str) -> int:
    assert w and w[-1] in LS and all(c in MS for c in w[:-1]), w
    n = 0
    for c in w[:-1]:
        n = n * 5 + (MS.index(c) + 1)
    return n * 20 + (LS.index(w[-1]) + 1)


def split_words(letters: str):
    """compressed letter stream -> list of tokens: ints (step numbers) and 'Z'. Returns None if malformed
    (dangling high digits, Z not following a step)."""
    out = []
    buf = ''
    for c in letters:
        if c.isspace():
            continue
        if c == 'Z':
            if buf or not out or out[-1] == 'Z':
                return None
            out.append('Z')
        elif c in MS:
            buf += c
        elif c in LS:
            out.append(decode_word(buf + c))
            buf = ''
        else:
            return None
    if buf:
        return None
    return out


# ------------------------------------------------------------------------------------------------
# terms: ('app', symbol, (subterms...)) | ('var', name)   ;  statement body: tuple of terms
# ------------------------------------------------------------------------------------------------

def term_str(t) -> str:
    if t[0] == 'var':
        return t[1]
    if not t[2]:
        return t[1]
    return '( ' + t[1] + ' ' + ' '.join(term_str(x) for x in t[2]) + ' )'


def body_str(b) -> str:
    return ' '.join(term_str(t) for t in b)


def term_vars(t, acc=None):
    acc = acc if acc is not None else []
    if t[0] == 'var':
        if t[1] not in acc:
            acc.append(t[1])
    else:
        for x in t[2]:
            term_vars(x, acc)
    return acc


def body_vars(b):
    acc = []
    for t in b:
        term_vars(t, acc)
    return acc


def subst_term(t, s):
    if t[0] == 'var':
        return s.get(t[1], t)
    return ('app', t[1], tuple(subst_term(x, s) for x in t[2]))


def subst_body(b, s):
    return tuple(subst_term(t, s) for t in b)


# ------------------------------------------------------------------------------------------------
# database model
#   statements: ('c', names) ('v', names) ('d', names) ('f', label, typecode, var) ('e', label, body)
#               ('a', label, body) ('p', label, body, proof_text) ('block', [statements])
# ------------------------------------------------------------------------------------------------

def write_db(stmts, indent='') -> str:
    lines = []
    for s in stmts:
        k = s[0]
        if k in ('c', 'v', 'd'):
            lines.append(f'{indent}${k} ' + ' '.join(s[1]) + ' $.')
        elif k == 'f':
            lines.append(f'{indent}{s[1]} $f {s[2]} {s[3]} $.')
        elif k in ('e', 'a'):
            lines.append(f'{indent}{s[1]} ${k} {body_str(s[2])} $.')
        elif k == 'p':
            lines.append(f'{indent}{s[1]} $p {body_str(s[2])} $= {s[3]} $.')
        elif k == 'block':
            lines.append(f'{indent}${{')
            lines.append(write_db(s[1], indent + '  '))
            lines.append(f'{indent}$}}')
        else:
            raise ValueError(k)
    return '\n'.join(lines)


class MMError(Exception):
    pass


class Frame:
    """what an assertion needs at use: mandatory hypotheses in order and its body"""

    def __init__(self, label, body, hyps, dvs):
        self.label = label
        self.body = body
        self.hyps = hyps        # list of ('f', label, typecode, var) / ('e', label, body) in database order
        self.dvs = dvs          # set of frozenset pairs among mandatory variables


class Verifier:
    """verifies every $p of a database; `results[label]` = proved body"""

    def __init__(self):
        self.constants = set()
        self.labels = {}            # label -> ('f'|'e', stmt) or Frame
        self.scopes = [{'v': set(), 'f': [], 'e': [], 'd': set()}]
        self.results = {}
        self.order = 0

    # scope helpers
    def active(self, key):
        out = []
        for sc in self.scopes:
            out += sc[key] if isinstance(sc[key], list) else list(sc[key])
        return out

    def active_vars(self):
        s = set()
        for sc in self.scopes:
            s |= sc['v']
        return s

    def make_frame(self, label, body):
        es = self.active('e')
        mand_vars = set(body_vars(body))
        for e in es:
            mand_vars |= set(body_vars(e[2]))
        hyps = []
        # mandatory hypotheses in database (appearance) order
        allh = sorted(self.active('f') + es, key=lambda h: h[-1])
        for h in allh:
            if h[0] == 'f':
                if h[3] in mand_vars:
                    hyps.append(h[:4])
            else:
                hyps.append(h[:3])
        dvs = set()
        for sc in self.scopes:
            for pair in sc['d']:
                if pair <= mand_vars:
                    dvs.add(pair)
        return Frame(label, body, hyps, dvs)

    def run(self, stmts):
        for s in stmts:
            k = s[0]
            if k == 'c':
                if len(self.scopes) > 1:
                    raise MMError('$c in inner scope')
                self.constants |= set(s[1])
            elif k == 'v':
                self.scopes[-1]['v'] |= set(s[1])
            elif k == 'd':
                for a in s[1]:
                    if a not in self.active_vars():
                        raise MMError(f'$d names undeclared variable {a}')
                for a in s[1]:
                    for b in s[1]:
                        if a != b:
                            self.scopes[-1]['d'].add(frozenset((a, b)))
            elif k == 'f':
                if s[3] not in self.active_vars():
                    raise MMError(f'$f for undeclared variable {s[3]}')
                if s[2] not in self.constants:
                    raise MMError(f'typecode {s[2]} not declared')
                self.order += 1
                h = ('f', s[1], s[2], s[3], self.order)
                self.scopes[-1]['f'].append(h)
                self.labels[s[1]] = h
            elif k == 'e':
                for t in s[2]:
                    self.check_symbols(t)
                self.order += 1
                h = ('e', s[1], s[2], self.order)
                self.scopes[-1]['e'].append(h)
                self.labels[s[1]] = h
            elif k == 'a':
                self.check_body(s[2])
                self.labels[s[1]] = self.make_frame(s[1], s[2])
            elif k == 'p':
                self.check_body(s[2])
                fr = self.make_frame(s[1], s[2])
                proved = self.verify(fr, s[3])
                if proved != s[2]:
                    raise MMError(f'{s[1]}: proof proves {body_str(proved)} not {body_str(s[2])}')
                self.results[s[1]] = proved
                self.labels[s[1]] = fr
            elif k == 'block':
                self.scopes.append({'v': set(), 'f': [], 'e': [], 'd': set()})
                self.run(s[1])
                self.scopes.pop()
                # labels of $e/$f of the closed scope become inactive
                for lab, h in list(self.labels.items()):
                    if isinstance(h, tuple) and h[0] in ('e', 'f') and not any(h in sc[h[0]] for sc in self.scopes):
                        del self.labels[lab]
            else:
                raise MMError(f'unknown statement {k}')

    def check_symbols(self, t):
        if t[0] == 'app':
            if t[1] not in self.constants:
                raise MMError(f'constant {t[1]} used but not declared')
            for x in t[2]:
                self.check_symbols(x)

    def check_body(self, body):
        for t in body:
            self.check_symbols(t)
        av = self.active_vars()
        for v in body_vars(body):
            if v not in av:
                raise MMError(f'variable {v} not active')
            if not any(f[3] == v for f in self.active('f')):
                raise MMError(f'variable {v} has no active $f')

    # proofs
    def decode(self, fr: Frame, proof_text: str):
        """compressed proof -> list of ('hyp', h) ('assert', Frame) ('save',) ('load', k)"""
        toks = proof_text.split()
        if not toks or toks[0] != '(':
            raise MMError('only compressed proofs')
        try:
            close = toks.index(')')
        except ValueError:
            raise MMError('missing )') from None
        labels = toks[1:close]
        words = split_words(''.join(toks[close + 1:]))
        if words is None:
            raise MMError('malformed compressed proof')
        m = len(fr.hyps)
        n = len(labels)
        steps = []
        for w in words:
            if w == 'Z':
                steps.append(('save',))
            elif w <= m:
                steps.append(('hyp', fr.hyps[w - 1]))
            elif w <= m + n:
                lab = labels[w - m - 1]
                if lab not in self.labels:
                    raise MMError(f'unknown label {lab}')
                steps.append(('ref', self.labels[lab]))
            else:
                steps.append(('load', w - m - n))
        return steps

    def verify(self, fr: Frame, proof_text: str):
        stack = []
        saved = []
        for st in self.decode(fr, proof_text):
            if st[0] == 'save':
                if not stack:
                    raise MMError('Z on empty stack')
                saved.append(stack[-1])
            elif st[0] == 'load':
                if st[1] > len(saved):
                    raise MMError('reference to a step not yet marked')
                stack.append(saved[st[1] - 1])
            elif st[0] == 'hyp':
                h = st[1]
                stack.append((('app', h[2], ()), ('var', h[3])) if h[0] == 'f' else h[2])
            else:
                r = st[1]
                if isinstance(r, tuple):      # active hypothesis referenced by label
                    stack.append((('app', r[2], ()), ('var', r[3])) if r[0] == 'f' else r[2])
                    continue
                n = len(r.hyps)
                if len(stack) < n:
                    raise MMError(f'stack underflow applying {r.label}')
                args = stack[len(stack) - n:]
                del stack[len(stack) - n:]
                s = {}
                for h, a in zip(r.hyps, args):
                    if h[0] == 'f':
                        if len(a) != 2 or a[0] != ('app', h[2], ()):
                            raise MMError(f'{r.label}: typecode mismatch for {h[3]}: {body_str(a)}')
                        s[h[3]] = a[1]
                    else:
                        if subst_body(h[2], s) != a:
                            raise MMError(f'{r.label}: essential hypothesis {h[1]} mismatch')
                for pair in r.dvs:
                    x, y = tuple(pair)
                    vx, vy = term_vars(s[x]), term_vars(s[y])
                    for a in vx:
                        for b in vy:
                            if a == b:
                                raise MMError(f'{r.label}: disjoint variable violation')
                            if not any(frozenset((a, b)) in sc['d'] for sc in self.scopes):
                                raise MMError(f'{r.label}: $d {a} {b} not inherited')
                stack.append(subst_body(r.body, s))
        if len(stack) != 1:
            raise MMError(f'proof leaves {len(stack)} entries')
        return stack[0]


def verify_db(stmts):
    v = Verifier()
    v.run(stmts)
    return v


# ------------------------------------------------------------------------------------------------
# proof trees and compressed encoding
#   tree: (label, [subtrees])  -- label of an assertion or of a hypothesis; subtrees in mandatory-hyp order
# ------------------------------------------------------------------------------------------------

def rpn(tree, out=None):
    out = out if out is not None else []
    for sub in tree[1]:
        rpn(sub, out)
    out.append(tree[0])
    return out


def encode_compressed(tree, mand_labels, layout: str = 'none'):
    """-> 'proof text'. layout: 'none' (no reuse), 'all' (every repeated non-trivial subtree marked Z and reused),
    'first' (only the first repeated subtree)."""
    labels = []

    def number_of(label):
        if label in mand_labels:
            return mand_labels.index(label) + 1
        if label not in labels:
            labels.append(label)
        return len(mand_labels) + labels.index(label) + 1

    # first pass: collect labels in order of first use (so numbering is fixed before letters are produced)
    for lab in rpn(tree):
        number_of(lab)
    counts = {}

    def count(t):
        key = repr(t)
        counts[key] = counts.get(key, 0) + 1
        for s in t[1]:
            count(s)
    count(tree)
    reuse = set()
    if layout != 'none':
        for key, c in counts.items():
            if c > 1 and key.count('(') > 1:
                reuse.add(key)
        if layout == 'first' and reuse:
            # the first repeated subtree in post-order
            order = []

            def post(t):
                for s in t[1]:
                    post(s)
                if repr(t) in reuse and repr(t) not in order:
                    order.append(repr(t))
            post(tree)
            reuse = {order[0]}
    marked = {}
    letters = []

    def emit(t):
        key = repr(t)
        if key in marked:
            letters.append(encode_number(len(mand_labels) + len(labels) + marked[key]))
            return
        for s in t[1]:
            emit(s)
        letters.append(encode_number(number_of(t[0])))
        if key in reuse:
            marked[key] = len(marked) + 1
            letters.append('Z')

    emit(tree)
    return '( ' + ' '.join(labels) + (' ' if labels else '') + ') ' + ''.join(letters)


def tree_size(tree) -> int:
    return 1 + sum(tree_size(s) for s in tree[1])


def encode_compressed_marks(tree, mand_labels, marks, ref: str = 'latest'):
    """compressed proof with Z exactly after the steps whose pre-order node index is in `marks`. A node that is
    not itself to be marked and whose subtree equals one marked earlier is replaced by a reference to that mark
    (`ref`: 'latest' or 'earliest' mark of an equal subtree); a node in `marks` is always written out, so equal
    expressions can be marked twice. Every such proof is valid whenever the uncompressed one is."""
    labels = []

    def number_of(label):
        if label in mand_labels:
            return mand_labels.index(label) + 1
        if label not in labels:
            labels.append(label)
        return len(mand_labels) + labels.index(label) + 1

    for lab in rpn(tree):
        number_of(lab)
    marked = {}        # repr(subtree) -> list of mark numbers
    nmarks = [0]
    letters = []
    counter = [0]

    def skip(t):
        counter[0] += tree_size(t)

    def emit(t):
        k = counter[0]
        key = repr(t)
        if k not in marks and key in marked:
            m = marked[key][-1] if ref == 'latest' else marked[key][0]
            letters.append(encode_number(len(mand_labels) + len(labels) + m))
            skip(t)
            return
        counter[0] += 1
        for s in t[1]:
            emit(s)
        letters.append(encode_number(number_of(t[0])))
        if k in marks:
            nmarks[0] += 1
            marked.setdefault(key, []).append(nmarks[0])
            letters.append('Z')

    emit(tree)
    return '( ' + ' '.join(labels) + (' ' if labels else '') + ') ' + ''.join(letters)


# ------------------------------------------------------------------------------------------------
# reading databases in the repository's dialect (own tokenizer; used to validate E7 on the shipped files)
# ------------------------------------------------------------------------------------------------

def parse_text(src: str):
    import re
    src = re.sub(r'\$\(.*?\$\)', ' ', src, flags=re.S)
    toks = src.split()
    pos = 0
    variables = set()

    def parse_terms(ts):
        out = []
        i = 0

        def term():
            nonlocal i
            t = ts[i]
            if t == '(':
                sym = ts[i + 1]
                i += 2
                subs = []
                while ts[i] != ')':
                    subs.append(term())
                i += 1
                return ('app', sym, tuple(subs))
            i += 1
            if t in variables:
                return ('var', t)
            return ('app', t, ())
        while i < len(ts):
            out.append(term())
        return tuple(out)

    def block(depth):
        nonlocal pos
        stmts = []
        while pos < len(toks):
            t = toks[pos]
            if t == '$}':
                pos += 1
                return stmts
            if t == '${':
                pos += 1
                stmts.append(('block', block(depth + 1)))
                continue
            if t in ('$c', '$v', '$d'):
                end = toks.index('$.', pos)
                names = tuple(toks[pos + 1:end])
                if t == '$v':
                    variables.update(names)
                stmts.append((t[1], names))
                pos = end + 1
                continue
            label = t
            kind = toks[pos + 1]
            if kind == '$f':
                stmts.append(('f', label, toks[pos + 2], toks[pos + 3]))
                pos += 5
            elif kind in ('$e', '$a'):
                end = toks.index('$.', pos)
                stmts.append((kind[1], label, parse_terms(toks[pos + 2:end])))
                pos = end + 1
            elif kind == '$p':
                eq = toks.index('$=', pos)
                end = toks.index('$.', eq)
                stmts.append(('p', label, parse_terms(toks[pos + 2:eq]), ' '.join(toks[eq + 1:end])))
                pos = end + 1
            else:
                raise MMError(f'cannot parse at {toks[pos:pos + 5]}')
        return stmts
    return block(0)
