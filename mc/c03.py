"""C03 -- published theory and claims are exactly what was declared.

Space: modules from a grammar (mc/modgraph.py): import graphs (single, chain, diamond, repeated import, wide),
axioms/claims from a pool (shared and distinct symbols, notation, binders, constrained metavariables), claim modes,
both optimise settings; plus capacity families around 256 symbols / memory slots / variable ids.
Oracle: the three files are decoded by the reference machine E2 and its publish journal is compared with the
declaration: one injective name<->number map for all three files; axioms = declared axioms of the import closure in
import-then-declaration order (nothing added or dropped); claims proved in declaration order; optimise on/off give
the same journal; over capacity the serialiser must raise instead of emitting a wrapped id."""
from __future__ import annotations

import json
import sys

from . import common, par, pyrun
from . import refmachine as rm

PROP = 'C03'


class SymMap:
    """injective correspondence between declared symbol names and emitted numbers, shared by all files"""

    def __init__(self):
        self.fw = {}
        self.bw = {}

    def unify(self, declared, decoded) -> bool:
        """declared: expanded term with symbol names; decoded: machine term with numbers"""
        if declared[0] != decoded[0]:
            return False
        k = declared[0]
        if k == 'sym':
            n, i = declared[1], decoded[1]
            if self.fw.setdefault(n, i) != i:
                return False
            if self.bw.setdefault(i, n) != n:
                return False
            return True
        if k in ('evar', 'svar'):
            return declared[1] == decoded[1]
        if k == 'mv':
            return declared[1:] == decoded[1:]
        if k in ('imp', 'app'):
            return self.unify(declared[1], decoded[1]) and self.unify(declared[2], decoded[2])
        if k in ('ex', 'mu'):
            return declared[1] == decoded[1] and self.unify(declared[2], decoded[2])
        if k in ('esub', 'ssub'):
            return declared[2] == decoded[2] and self.unify(declared[1], decoded[1]) and self.unify(declared[3], decoded[3])
        return False


def journal_of(g, c, p):
    r = rm.run3(g, c, p, 2)
    if r[0] not in ('ACCEPT', 'MAYREJECT'):
        return None, r
    return r[2].journal, r


def check_module(spec, h):
    from . import bridge, modgraph
    viols = []
    shape, idx, mode, share = spec
    desc = {'shape': shape, 'axioms': list(idx), 'claims': mode, 'share': share}
    journals = {}
    for opt in (False, True):
        try:
            if shape == 'nested':
                top, info = modgraph.nested_module(idx[0], with_info=True)
            else:
                top, info = modgraph.build(shape, idx, mode, share)
            files = pyrun.serialize_real(top, opt)
        except Exception as ex:  # noqa: BLE001
            viols.append((dict(desc, kind='serialize_raises'), f'{desc}: serialize(optimize={opt}) raised {type(ex).__name__}: {str(ex)[:150]}'))
            return viols, 0
        g, c, p = pyrun.triple(files)
        j, r = journal_of(g, c, p)
        if j is None:
            viols.append((dict(desc, kind='reference_rejects', reason=str(r[1])), f'{desc}: reference machine cannot run the files (optimize={opt}): {r[:2]}'))
            return viols, 0
        if not h.verify(g, c, p):
            viols.append((dict(desc, kind='checker_rejects'), f'{desc}: checker rejects (optimize={opt})'))
        sm = SymMap()
        ax = [t for k, t in j if k == 'axiom']
        cl = [t for k, t in j if k == 'claim']
        pr = [t for k, t in j if k == 'proved']
        want_ax = [bridge.expand(a) for a in info['published']]
        want_cl = [bridge.expand(a) for a in info['claims']]
        if len(ax) != len(want_ax) or not all(sm.unify(w, d) for w, d in zip(want_ax, ax)):
            viols.append((dict(desc, kind='axioms_differ'),
                          f'{desc} optimize={opt}: published axioms {[rm.show(t) for t in ax]} declared (import closure) {[rm.show(t) for t in want_ax]}'))
        # claims are published in reverse declaration order and proved in declaration order
        if len(cl) != len(want_cl) or not all(sm.unify(w, d) for w, d in zip(list(reversed(want_cl)), cl)):
            viols.append((dict(desc, kind='claims_differ'),
                          f'{desc} optimize={opt}: published claims {[rm.show(t) for t in cl]} declared {[rm.show(t) for t in want_cl]}'))
        if len(pr) != len(want_cl) or not all(sm.unify(w, d) for w, d in zip(want_cl, pr)):
            viols.append((dict(desc, kind='proved_differ'),
                          f'{desc} optimize={opt}: proved {[rm.show(t) for t in pr]} declared order {[rm.show(t) for t in want_cl]}'))
        journals[opt] = [(k, rm.show(t)) for k, t in j]
    if journals.get(False) != journals.get(True):
        viols.append((dict(desc, kind='optimise_changes_journal'), f'{desc}: journal differs between optimise off and on'))
    n_mod = 2
    if shape in ('chain', 'diamond') and mode == 'all':
        # histories on the module objects: serialise, THEN declare one more axiom in one node, serialise again --
        # the second set of files must publish the theory as declared at that moment
        extra_ax = bridge.P.App(bridge.P.Symbol('late'), bridge.P.Symbol('a'))
        for target in [n for n, _, _ in modgraph.SHAPES[shape]]:
            for opt in (False, True):
                try:
                    top, info = modgraph.build(shape, idx, mode, share)
                    pyrun.serialize_real(top, opt)
                    info['nodes'][target].add_axiom(extra_ax)
                    files = pyrun.serialize_real(top, opt)
                except Exception as ex:  # noqa: BLE001
                    viols.append((dict(desc, kind='reserialize_raises', node=target), f'{desc}: serialise, add an axiom to {target}, serialise again (optimize={opt}) raised {type(ex).__name__}: {str(ex)[:120]}'))
                    continue
                n_mod += 1
                g, c, p = pyrun.triple(files)
                j, r = journal_of(g, c, p)
                want = [bridge.expand(a) for a in info['published_with']({target: [extra_ax]})]
                ax = [t for k, t in j if k == 'axiom'] if j is not None else None
                sm = SymMap()
                if ax is None or len(ax) != len(want) or not all(sm.unify(w, d) for w, d in zip(want, ax)):
                    viols.append((dict(desc, kind='late_axiom_not_published', node=target),
                                  f'{desc} optimize={opt}: after a first serialisation an axiom was added to node {target}; the next serialisation publishes '
                                  f'{[rm.show(t) for t in ax] if ax is not None else r[:2]}, declared {[rm.show(t) for t in want]}'))
    return viols, n_mod


def module_chunk(specs):
    h = par.harness()
    out = {'evals': 0, 'modules': 0, 'viol': []}
    for spec in specs:
        out['evals'] += 1
        v, n = check_module(tuple(spec), h)
        out['modules'] += n
        out['viol'] += v
    return out


def claimlist_chunk(specs):
    """modules declaring a LIST of claims (repetitions, adjacent or not) with their proofs in claim order: the claim file
    publishes exactly that list (reversed), the proof file proves it in order"""
    from . import bridge, c02
    from proof_generation.proof import ProofExp
    lib = c02.make_lib(light=True)
    h = par.harness()
    out = {'evals': 0, 'modules': 0, 'viol': []}
    for claims in specs:
        out['evals'] += 1
        for opt in (False, True):
            desc = {'shape': 'claim_list', 'claims': list(claims), 'repeated': len(set(claims)) < len(claims)}
            try:
                ths = [c02.build(c02.MULTI_POOL[i], lib) for i in claims]
                m = ProofExp(axioms=list(lib.get_axioms()), notations=[], claims=[t.conc for t in ths], proof_expressions=ths)
                g, c, p = pyrun.triple(pyrun.serialize_real(m, opt))
            except Exception as ex:  # noqa: BLE001
                if desc['repeated']:
                    # refusing a module that states a claim twice publishes nothing wrong: counted, not reported
                    out['refused_repeated'] = out.get('refused_repeated', 0) + 1
                    break
                out['viol'].append((dict(desc, kind='serialize_raises'), f'{desc}: serialize(optimize={opt}) raised {type(ex).__name__}: {str(ex)[:150]}'))
                break
            out['modules'] += 1
            j, r = journal_of(g, c, p)
            if j is None:
                out['viol'].append((dict(desc, kind='reference_rejects', reason=str(r[1])), f'{desc}: reference machine cannot run the files (optimize={opt}): {r[:2]}'))
                break
            if not h.verify(g, c, p):
                out['viol'].append((dict(desc, kind='checker_rejects'), f'{desc}: checker rejects (optimize={opt})'))
            sm = SymMap()
            want = [bridge.expand(t.conc) for t in ths]
            cl = [t for k, t in j if k == 'claim']
            pr = [t for k, t in j if k == 'proved']
            if len(cl) != len(want) or not all(sm.unify(w, d) for w, d in zip(list(reversed(want)), cl)):
                out['viol'].append((dict(desc, kind='claims_differ'), f'{desc} optimize={opt}: published claims {[rm.show(t) for t in cl]} declared {[rm.show(t) for t in want]}'))
            if len(pr) != len(want) or not all(sm.unify(w, d) for w, d in zip(want, pr)):
                out['viol'].append((dict(desc, kind='proved_differ'), f'{desc} optimize={opt}: proved {[rm.show(t) for t in pr]} declared {[rm.show(t) for t in want]}'))
    return out


def capacity_chunk(kind_n):
    """symbols / metavariable ids / memory slots around 256"""
    from . import bridge
    P = bridge.P
    from proof_generation.proof import ProofExp
    kind, n = kind_n
    h = par.harness()
    optimize = False
    out = {'evals': 1, 'refused': 0, 'encoded': 0, 'viol': []}
    try:
        if kind == 'symbols':
            axioms = [P.App(P.Symbol(f's{2 * i}'), P.Symbol(f's{2 * i + 1}')) for i in range(n // 2)]
            if n % 2:
                axioms.append(P.Symbol(f's{n - 1}'))
            m = ProofExp(axioms=axioms)
            names = n
        elif kind == 'evar_id':
            m = ProofExp(axioms=[P.Exists(n, P.EVar(n))])
        elif kind == 'metavar_id':
            m = ProofExp(axioms=[P.Implies(P.MetaVar(n), P.MetaVar(n))])
        elif kind == 'memory':
            # n axioms -> n memory slots; the proof loads the last one
            axioms = [P.App(P.Symbol('f'), P.EVar(i % 200)) if i < 200 else P.App(P.App(P.Symbol('f'), P.EVar(i % 200)), P.EVar(1)) for i in range(n)]
            m = ProofExp(axioms=axioms)
            m.add_claim(axioms[-1])
            m.add_proof_expression(m.load_axiom(axioms[-1]))
        elif kind == 'inst_len':
            # one Instantiate with n plugs (its length is one byte)
            goal = P.Implies(P.MetaVar(0), P.Implies(P.MetaVar(1), P.MetaVar(0)))
            m = ProofExp(axioms=[P.Symbol('a')], claims=[goal])
            m.add_proof_expression(m.instantiate(m.prop1(), {k: (P.MetaVar(k) if k < 2 else P.EVar(k % 250)) for k in range(n)}))
        elif kind == 'constraint_len':
            # a metavariable with n freshness constraints (list length is one byte)
            m = ProofExp(axioms=[P.Implies(P.MetaVar(0, e_fresh=tuple(P.EVar(i % 256) for i in range(n))), P.Symbol('a'))])
        elif kind == 'memo':
            # n distinct small patterns, each built twice (as plugs for metavariables the conclusion does not mention):
            # n candidates for memory slots when the optimising stack is used; 2 axioms occupy slots already
            plugs = [P.App(P.EVar(i // 20), P.EVar(i % 20)) for i in range(n)]
            goal = P.Implies(P.MetaVar(0), P.Implies(P.MetaVar(1), P.MetaVar(0)))
            m = ProofExp(axioms=[P.Implies(P.EVar(0), P.EVar(0)), P.Symbol('a')], claims=[goal])
            groups = [plugs[k:k + 200] for k in range(0, n, 200)]
            pf = m.prop1()
            for g in groups + groups:
                pf = m.instantiate(pf, {10 + k: pl for k, pl in enumerate(g)})
            m.add_proof_expression(pf)
            pyrun.serialize_real(m, False)       # the plain stack has no slot problem: a failure here is not a capacity refusal
            optimize = True
        else:
            raise ValueError(kind)
        files = pyrun.serialize_real(m, optimize)
    except Exception as ex:  # noqa: BLE001
        out['refused'] = 1
        out['refusal'] = type(ex).__name__
        if kind == 'memo':
            out['viol'].append(({'kind': 'capacity_optimise_fails', 'what': kind, 'n': n},
                                f'memo={n}: serialize(optimize=True) raised {type(ex).__name__}: {str(ex)[:120]} on a module the plain serialiser encodes'))
        return out
    out['encoded'] = 1
    g, c, p = pyrun.triple(files)
    j, r = journal_of(g, c, p)
    if j is None:
        out['viol'].append(({'kind': 'capacity_bad_encoding', 'what': kind, 'n': n}, f'{kind}={n}: emitted files are rejected by the reference machine: {r[:2]}'))
        return out
    sm = SymMap()
    want = [bridge.expand(a) for a in m.get_axioms()]
    ax = [t for k, t in j if k == 'axiom']
    if len(ax) != len(want) or not all(sm.unify(w, d) for w, d in zip(want, ax)):
        out['viol'].append(({'kind': 'capacity_ambiguous', 'what': kind, 'n': n},
                            f'{kind}={n}: the module was encoded but the decoded axioms do not correspond injectively to the declared ones (id wrapped?)'))
    if kind in ('memo', 'inst_len'):
        pr = [t for k, t in j if k == 'proved']
        if len(pr) != 1 or rm.show(pr[0]) != rm.show(bridge.expand(m.get_claims()[0])):
            out['viol'].append(({'kind': 'capacity_ambiguous', 'what': kind, 'n': n}, f'memo={n}: the optimised proof does not prove the claim'))
    if kind == 'memory':
        pr = [t for k, t in j if k == 'proved']
        if len(pr) != 1 or not sm.unify(want[-1], pr[0]):
            out['viol'].append(({'kind': 'capacity_ambiguous', 'what': kind, 'n': n}, f'memory={n}: the Load does not address the declared axiom'))
    if not h.verify(g, c, p):
        out['viol'].append(({'kind': 'capacity_checker_rejects', 'what': kind, 'n': n}, f'{kind}={n}: checker rejects'))
    return out


def replay(path: str) -> int:
    v = json.loads(open(path).read())
    sig = v['signature']
    print(json.dumps(sig), '\n', v.get('what'))
    if 'shape' in sig:
        vs, _ = check_module((sig['shape'], tuple(sig['axioms']), sig['claims'], sig['share']), common.Harness())
        for s, w in vs:
            print('still failing:', w[:300])
        return 1 if vs else 0
    if 'what' in sig:
        out = capacity_chunk((sig['what'], sig['n']))
        return 1 if out['viol'] else 0
    return 1


def main(argv=None) -> int:
    argv = argv or []
    if argv and argv[0] == '--replay':
        return replay(argv[1])
    chk = common.Check(PROP, 'exploration')
    thorough = chk.tier == 'thorough'
    common.build_harness()
    from . import modgraph
    agg: dict = {}
    specs = modgraph.family(6 if thorough else 4) + modgraph.twin_family() + [('nested', (k,), 'all', False) for k in range(4)]
    for out in par.pmap(module_chunk, par.chunks(specs, common.ncpu() * 4)):
        for k, v in out.items():
            if k == 'viol':
                for sig, what in v:
                    chk.violation(sig, sig, what)
            else:
                agg[k] = agg.get(k, 0) + v
    import itertools
    from . import c02
    lists = [cl for n in range(1, (5 if thorough else 4)) for cl in itertools.product(range(len(c02.MULTI_POOL)), repeat=n)]
    for out in par.pmap(claimlist_chunk, par.chunks(lists, common.ncpu() * 2)):
        for k, v in out.items():
            if k == 'viol':
                for sig, what in v:
                    chk.violation(sig, sig, what)
            else:
                agg[k] = agg.get(k, 0) + v
    caps = [('symbols', n) for n in (1, 2, 255, 256, 257, 258, 300)] + [('evar_id', n) for n in (255, 256, 300)] + \
           [('metavar_id', n) for n in (255, 256)] + [('memory', n) for n in (255, 256, 257, 258)] + \
           [('memo', n) for n in (3, 200, 253, 254, 255, 256, 257, 300, 400)] + \
           [('inst_len', n) for n in (2, 254, 255, 256, 257)] + [('constraint_len', n) for n in (1, 255, 256, 257)]
    refused, encoded = [], []
    for (kind, n), out in zip(caps, par.pmap(capacity_chunk, caps)):
        agg['capacity_cases'] = agg.get('capacity_cases', 0) + 1
        (refused if out['refused'] else encoded).append(f'{kind}={n}')
        for sig, what in out['viol']:
            chk.violation(sig, sig, what)
    pyrun.cleanup()
    chk.set('evaluations', agg.get('modules', 0) + agg.get('capacity_cases', 0))
    chk.set('distinct_nontrivial', agg.get('modules', 0) + len(refused) + len(encoded))
    chk.set('rule', 'every module spec of the grammar (shape x axiom tuple x claim mode x sharing) x optimise setting (one evaluation = one set of files decoded and compared), chain/diamond modules also re-serialised after a late add_axiom on each node, every claim list of <=3/4 claims over a pool of four (repetitions included), plus '
                    'capacity cases; each spec is distinct by construction; all are non-trivial (a journal is decoded and compared)')
    chk.set('exhaustive', True)
    chk.set('capacity_refused', refused)
    chk.set('capacity_encoded', encoded)
    chk.set('detail', agg)
    chk.sample({'module_spec': list(map(str, specs[len(specs) // 2]))})
    chk.assume('the journal is decoded by the reference machine mc/refmachine.py (bound to the checker by C05)')
    chk.assume('an axiom repeated because a module is imported along two paths is expected to be published once per path (import closure as a sequence)')
    return chk.finish()


if __name__ == '__main__':
    sys.exit(main(sys.argv[1:]))
