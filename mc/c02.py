"""C02 -- every proof the toolkit generates is accepted by the checker.

Explicit-state search over proof *expressions*: level 0 = the primitive thunks of the DSL (prop1-3,
exists_quantifier, loads of the module's axioms) and library lemmas at pool arguments; each further level applies
one constructor (modus_ponens, instantiate / dynamic_inst with maps in every key order, exists_generalization)
to expressions of the previous levels. A construction-time or run-time refusal by the toolkit ends the branch.
Every expression the toolkit accepts becomes a module (claim = advertised conclusion) that is serialised by the
real ProofExp.serialize with optimisation off and on and must be accepted by the real checker (verify) and by
the reference machine, discharging the claim. The shipped modules are regenerated and verified as well.
"""
from __future__ import annotations

import itertools
import json
import sys

from . import common, par, pyrun
from . import refmachine as rm

PROP = 'C02'


def make_lib(light: bool = False):
    from . import bridge
    P = bridge.P
    from proof_generation.tautology import Tautology
    from proof_generation.proofs.propositional import Propositional
    lib = Propositional() if light else Tautology()
    extra = [P.Implies(P.Symbol('a'), P.Symbol('b')), P.Symbol('a'),
             P.Implies(P.App(P.Symbol('f'), P.EVar(0)), P.MetaVar(0, e_fresh=(P.EVar(0),))),
             P.Exists(0, P.App(P.Symbol('f'), P.EVar(0))),
             # pending substitutions whose PLUG is schematic (instantiating only the plug, only the body, or both)
             P.Implies(P.MetaVar(0), P.ESubst(P.MetaVar(1), P.EVar(1), P.MetaVar(0))),
             P.Implies(P.MetaVar(0), P.SSubst(P.MetaVar(1), P.SVar(1), P.MetaVar(0)))]
    for a in extra:
        lib.add_axiom(a)
    return lib


def pool():
    from . import bridge
    from frozendict import frozendict
    P = bridge.P
    return [P.MetaVar(0), P.MetaVar(1), P.EVar(0), P.Symbol('a'), P.neg(P.MetaVar(0)), P.Exists(0, P.EVar(0)),
            P.Mu(1, P.EVar(0)), P.Mu(0, P.MetaVar(2, positive=(P.SVar(0),))),
            P._and(P.MetaVar(1), P.EVar(1)), P.ESubst(P.MetaVar(1), P.EVar(0), P.EVar(1)), P.MetaVar(2, e_fresh=(P.EVar(0),)),
            P.App(P.Symbol('f'), P.EVar(0)), P.Exists(1, P.EVar(0)), P.Mu(0, P.SVar(0)),
            P.Instantiate(P.Implies(P.MetaVar(0), P.MetaVar(1)), frozendict({1: P.EVar(0), 0: P.Symbol('a')})),
            P.MetaVar(1, negative=(P.SVar(0),)), P.Mu(0, P.Implies(P.MetaVar(1, negative=(P.SVar(0),)), P.SVar(0))),
            # symbols met in another order than the theory declares them / a symbol the theory does not mention
            P.App(P.Symbol('b'), P.Symbol('a')), P.App(P.Symbol('z'), P.Symbol('f')),
            # pending substitutions whose plug mentions the substituted variable itself
            P.ESubst(P.MetaVar(1), P.EVar(0), P.App(P.Symbol('f'), P.EVar(0))), P.SSubst(P.MetaVar(1), P.SVar(0), P.App(P.Symbol('f'), P.SVar(0))),
            # a metavariable whose only constraint is a list of application-context holes
            P.MetaVar(3, app_ctx_holes=(P.EVar(2),)),
            # a notation that binds x0 around its argument; a pending set-variable substitution (as plug under an ESubst)
            __import__('proof_generation.proofs.substitution', fromlist=['forall']).forall(0)(P.App(P.Symbol('f'), P.EVar(0))),
            P.SSubst(P.MetaVar(1), P.SVar(0), P.Symbol('a')),
            # one pending substitution spelled twice: through a notation whose definition IS the substitution, and written
            # out as the body of another substitution (equal modulo notation, different classes)
            P.Notation('sub0', 2, P.ESubst(P.MetaVar(0), P.EVar(0), P.MetaVar(1)), '{0}[{1}/x0]')(P.MetaVar(2), P.Symbol('a')),
            P.ESubst(P.ESubst(P.MetaVar(2), P.EVar(0), P.Symbol('a')), P.EVar(1), P.Symbol('f'))]


LEMMAS = [('imp_refl', 1), ('bot_elim', 1), ('dneg_intro', 1), ('absurd', 2), ('peirce_bot', 1), ('and_l_imp', 2),
          ('con3', 2), ('or_comm_imp', 2), ('and_comm', 2), ('resolution', 3)]


def build(desc, lib):
    """descriptor -> ProofThunk (raises if the toolkit refuses at construction time)"""
    from . import bridge
    P = bridge.P
    PL = pool()
    k = desc[0]
    if k in ('prop1', 'prop2', 'prop3', 'exists_quantifier'):
        return getattr(lib, k)()
    if k == 'ax':
        return lib.load_axiom(lib.get_axioms()[desc[1]])
    if k == 'lemma':
        return getattr(lib, desc[1])(*[PL[i] for i in desc[2]])
    if k == 'mp':
        return lib.modus_ponens(build(desc[1], lib), build(desc[2], lib))
    if k == 'gen':
        return lib.exists_generalization(build(desc[1], lib), P.EVar(desc[2]))
    if k == 'inst':
        return lib.instantiate(build(desc[1], lib), {kk: PL[i] for kk, i in desc[2]})
    if k == 'dinst':
        return lib.dynamic_inst(build(desc[1], lib), {kk: PL[i] for kk, i in desc[2]})
    raise ValueError(k)


def level0(nax: int = 10):
    out = [('prop1',), ('prop2',), ('prop3',), ('exists_quantifier',)]
    out += [('ax', i) for i in range(nax)]
    return out


def lemma_descs(npool, only=None):
    out = []
    for name, ar in LEMMAS:
        if only is not None and name not in only:
            continue
        for combo in itertools.product(range(npool), repeat=ar):
            out.append(('lemma', name, combo))
    return out


def maps(npool1, npool2):
    ms = []
    for k in (0, 1, 2):
        for i in range(npool1):
            ms.append(((k, i),))
    for k1, k2 in itertools.permutations((0, 1, 2), 2):
        for i in range(npool2):
            for j in range(npool2):
                ms.append(((k1, i), (k2, j)))
    return ms


def successors(descs, all_prev, npool1, npool2, with_mp=True):
    out = []
    for d in descs:
        out.append(('gen', d, 0))
        out.append(('gen', d, 1))
        for m in maps(npool1, npool2):
            out.append(('inst', d, m))
            out.append(('dinst', d, m))
    if with_mp:
        new = set(descs)
        for a in all_prev:
            for b in all_prev:
                if a in new or b in new:
                    out.append(('mp', a, b))
    return out


def wellformed(t) -> bool:
    """document well-formedness of a whole term (every mu positive, no redundant or ill-headed pending substitution)"""
    k = t[0]
    if k in ('evar', 'svar', 'sym'):
        return True
    if k == 'mv':
        return not (set(t[6]) & set(t[2]))
    if k in ('imp', 'app'):
        return wellformed(t[1]) and wellformed(t[2])
    if k == 'ex':
        return wellformed(t[2])
    if k == 'mu':
        return rm.positive(t[2], t[1]) and wellformed(t[2])
    if k in ('esub', 'ssub'):
        return t[1][0] in ('mv', 'esub', 'ssub') and not rm.redundant(t) and wellformed(t[1]) and wellformed(t[3])
    return False


def ref_conclusion(d, lib):
    """the conclusion of the expression according to the *documented* rules, or raises rm.Reject / rm.Unspecified /
    ValueError when some step is not allowed by them (ill-formed plug, violated constraint, capture, ...)"""
    from . import bridge
    k = d[0]
    if k == 'prop1':
        return rm.PROP1
    if k == 'prop2':
        return rm.PROP2
    if k == 'prop3':
        return rm.PROP3
    if k == 'exists_quantifier':
        return rm.QUANTIFIER
    if k in ('ax', 'lemma', 'lemma2'):
        return bridge.expand(build(d, lib).conc) if k != 'lemma2' else None
    if k == 'mp':
        a, b = ref_conclusion(d[1], lib), ref_conclusion(d[2], lib)
        if a is None or b is None:
            return None
        if a[0] != 'imp' or a[1] != b:
            raise rm.Reject('MP_MISMATCH')
        return a[2]
    if k == 'gen':
        a = ref_conclusion(d[1], lib)
        if a is None:
            return None
        if a[0] != 'imp' or not rm.e_fresh(a[2], d[2]):
            raise rm.Reject('GEN_NOT_FRESH')
        return ('imp', ('ex', d[2], a[1]), a[2])
    if k in ('inst', 'dinst'):
        a = ref_conclusion(d[1], lib)
        if a is None:
            return None
        PL = pool()
        ids = [kk for kk, _ in d[2]]
        plugs = [bridge.expand(PL[i]) for _, i in d[2]]
        for pl in plugs:
            if not wellformed(pl):
                raise rm.Reject('ILLFORMED_PLUG')
        r = rm.instantiate(a, ids, plugs, rm.Ctx('drop_mv'))
        if not wellformed(r):
            raise rm.Reject('ILLFORMED_RESULT')
        return r
    return None


def python_side_ok(d, lib) -> bool:
    """does the documented calculus allow this expression? (False = the toolkit accepted something the rules forbid:
    the generator's missing well-formedness / constraint / capture checks, i.e. the known findings)"""
    try:
        ref_conclusion(d, lib)
        return True
    except (rm.Reject, rm.Unspecified):
        return False
    except Exception:  # noqa: BLE001
        return True


def judge_chunk(args):
    descs, light = args
    from . import bridge
    lib = make_lib(light=bool(light))
    h = par.harness()
    out = {'evals': 0, 'refused_construct': 0, 'refused_run': 0, 'accepted': 0, 'modules_verified': 0, 'opt_diverges': 0,
           'viol': [], 'ok': []}
    for d in descs:
        out['evals'] += 1
        try:
            th = build(d, lib)
            conc = th.conc
            ec = bridge.expand(conc)
        except Exception:  # noqa: BLE001
            out['refused_construct'] += 1
            continue
        results = {}
        for opt in (False, True):
            try:
                # a fresh thunk per run: dynamic_inst keeps interpreter-specific state in its map
                th2 = build(d, lib)
                m = pyrun.module_for(th2, axioms=lib.get_axioms())
                files = pyrun.serialize_real(m, opt)
                results[opt] = pyrun.triple(files)
            except Exception as ex:  # noqa: BLE001
                results[opt] = ex
        if all(isinstance(r, Exception) for r in results.values()):
            out['refused_run'] += 1
            continue
        if any(isinstance(r, Exception) for r in results.values()):
            out['opt_diverges'] += 1
            bad_opt = next(o for o, r in results.items() if isinstance(r, Exception))
            exn = results[bad_opt]
            out['viol'].append(({'kind': 'optimise_outcome_differs', 'top': d[0], 'fails_with_optimize': bad_opt, 'exc': common.exc_family(exn)}, _jd(d),
                                f'{show_desc(d)} concluding {conc}: serialize(optimize={bad_opt}) raised {type(exn).__name__}: {str(exn)[:120]} '
                                f'while serialize(optimize={not bad_opt}) succeeds'))
        out['accepted'] += 1
        good = True
        for opt, r in results.items():
            if isinstance(r, Exception):
                continue
            g, c, p = r
            out['modules_verified'] += 1
            if not h.verify(g, c, p):
                good = False
                r2 = rm.verify(g, c, p)
                reason = r2[1] if r2[0] == 'REJECT' else r2[0]
                out['viol'].append(({'kind': 'checker_rejects', 'top': d[0], 'reason': reason, 'allowed_by_documented_rules': python_side_ok(d, lib)}, _jd(d),
                                    f'checker rejects the serialisation (optimize={opt}) of {show_desc(d)} concluding {conc}; '
                                    f'reference machine: {reason}; files {g.hex()}|{c.hex()}|{p.hex()[:200]}'))
                break
            r2 = rm.verify(g, c, p)
            if r2[0] == 'REJECT':
                good = False
                out['viol'].append(({'kind': 'doc_machine_rejects', 'top': d[0], 'reason': r2[1]}, _jd(d),
                                    f'documented machine rejects ({r2[1]}) the serialisation (optimize={opt}) of {show_desc(d)}'))
                break
            if r2[0] in ('ACCEPT', 'MAYREJECT'):
                # the claim discharged is the advertised conclusion
                sym = {}
                jr = [t for kk, t in r2[2].journal if kk == 'proved']
                want = bridge.expand(conc)
                if len(jr) != 1 or not _same_modulo_symbols(jr[0], want):
                    good = False
                    out['viol'].append(({'kind': 'wrong_claim', 'top': d[0]}, _jd(d),
                                        f'{show_desc(d)}: journal proves {[rm.show(t) for t in jr]} but the module claims {conc}'))
                    break
        if good:
            out['ok'].append(d)
    return out


def _same_modulo_symbols(a, b) -> bool:
    """a has numbered symbols, b named ones: injective correspondence"""
    fw, bw = {}, {}

    def go(x, y):
        if x[0] != y[0]:
            return False
        k = x[0]
        if k == 'sym':
            if fw.setdefault(x[1], y[1]) != y[1] or bw.setdefault(y[1], x[1]) != x[1]:
                return False
            return True
        if k in ('evar', 'svar'):
            return x[1] == y[1]
        if k == 'mv':
            return x[1:] == y[1:]
        if k in ('imp', 'app'):
            return go(x[1], y[1]) and go(x[2], y[2])
        if k in ('ex', 'mu'):
            return x[1] == y[1] and go(x[2], y[2])
        if k in ('esub', 'ssub'):
            return x[2] == y[2] and go(x[1], y[1]) and go(x[3], y[3])
        return False
    return go(a, b)


def _jd(d):
    return json.loads(json.dumps(d))


def show_desc(d) -> str:
    k = d[0]
    if k in ('prop1', 'prop2', 'prop3', 'exists_quantifier'):
        return k
    if k == 'ax':
        return f'axiom[{d[1]}]'
    if k == 'lemma':
        return f'{d[1]}({",".join("p%d" % i for i in d[2])})'
    if k == 'mp':
        return f'mp({show_desc(d[1])}, {show_desc(d[2])})'
    if k == 'gen':
        return f'gen({show_desc(d[1])}, x{d[2]})'
    return f'{k}({show_desc(d[1])}, {{{", ".join("%d:p%d" % (a, b) for a, b in d[2])}}})'


def tup(d):
    if isinstance(d, list):
        return tuple(tup(x) for x in d)
    return d


def shipped_chunk(name):
    """regenerate a shipped module with the real serialize, both settings, and verify"""
    from . import bridge  # noqa: F401
    import importlib
    h = par.harness()
    modname, cls = name
    out = {'evals': 0, 'viol': []}
    try:
        mod = getattr(importlib.import_module(modname), cls)
    except Exception as ex:  # noqa: BLE001
        out['viol'].append(({'kind': 'shipped_import', 'module': cls}, None, f'cannot import {modname}.{cls}: {ex}'))
        return out
    for opt in (False, True):
        out['evals'] += 1
        try:
            files = pyrun.serialize_real(mod(), opt)
        except Exception as ex:  # noqa: BLE001
            out['viol'].append(({'kind': 'shipped_serialize', 'module': cls}, None, f'{cls}.serialize(optimize={opt}) raised {type(ex).__name__}: {str(ex)[:200]}'))
            continue
        g, c, p = pyrun.triple(files)
        if not h.verify(g, c, p):
            out['viol'].append(({'kind': 'shipped_rejected', 'module': cls, 'optimize': opt}, None,
                                f'checker rejects {cls} (optimize={opt}); reference: {rm.verify(g, c, p)[:2]}'))
        r2 = rm.verify(g, c, p)
        if r2[0] == 'REJECT':
            out['viol'].append(({'kind': 'shipped_doc_rejects', 'module': cls, 'optimize': opt}, None, f'documented machine rejects {cls}: {r2[1]}'))
    return out


def graph_chunk(specs):
    """modules with import graphs (chain, diamond, repeated import): loads of axioms declared in imported modules"""
    from . import modgraph
    h = par.harness()
    out = {'evals': 0, 'viol': []}
    for spec in specs:
        shape, idx, mode, share = spec
        for opt in (False, True):
            out['evals'] += 1
            try:
                top, info = modgraph.build(shape, tuple(idx), mode, share)
                files = pyrun.serialize_real(top, opt)
            except Exception:  # noqa: BLE001
                continue      # the toolkit refuses: nothing to accept
            g, c, p = pyrun.triple(files)
            if not h.verify(g, c, p):
                r2 = rm.verify(g, c, p)
                reason = r2[1] if r2[0] == 'REJECT' else r2[0]
                out['viol'].append(({'kind': 'graph_module_rejected', 'shape': shape, 'reason': reason}, None,
                                    f'checker rejects module graph {shape} axioms={list(idx)} claims={mode} share={share} optimize={opt}: {reason}'))
                break
    return out


MULTI_POOL = [('prop1',), ('lemma', 'imp_refl', (0,)), ('lemma', 'bot_elim', (0,)), ('ax', 0)]


def multi_specs(maxlen: int):
    """(claims, proofs): every list of 2..maxlen claims over the pool (repetitions allowed) x every order of their proofs"""
    out = []
    for n in range(2, maxlen + 1):
        for claims in itertools.product(range(len(MULTI_POOL)), repeat=n):
            for proofs in sorted(set(itertools.permutations(claims))):
                out.append((claims, proofs))
    return out


def multi_chunk(specs):
    """modules with several claims: whenever the toolkit serialises one (in whatever order it accepts the proofs), the checker,
    which discharges claims in order, must accept the three files and discharge exactly the declared claims"""
    from . import bridge
    from proof_generation.proof import ProofExp
    lib = make_lib(light=True)
    h = par.harness()
    out = {'evals': 0, 'accepted': 0, 'refused': 0, 'viol': []}
    for claims, proofs in specs:
        for opt in (False, True):
            out['evals'] += 1
            try:
                cl = [build(MULTI_POOL[i], lib).conc for i in claims]
                m = ProofExp(axioms=list(lib.get_axioms()), notations=[], claims=cl, proof_expressions=[build(MULTI_POOL[i], lib) for i in proofs])
                g, c, p = pyrun.triple(pyrun.serialize_real(m, opt))
            except Exception:  # noqa: BLE001
                out['refused'] += 1
                continue
            out['accepted'] += 1
            sig = {'kind': 'multi_claim_module_rejected', 'in_claim_order': claims == proofs, 'repeated_claim': len(set(claims)) < len(claims)}
            what = f'claims {[str(x) for x in cl]} proved in order {list(proofs)} (claims are {list(claims)}), optimize={opt}'
            if not h.verify(g, c, p):
                r2 = rm.verify(g, c, p)
                out['viol'].append((dict(sig, reason=r2[1] if r2[0] == 'REJECT' else r2[0]), None, f'checker rejects the module with {what}'))
                break
            r2 = rm.verify(g, c, p)
            if r2[0] == 'REJECT':
                out['viol'].append((dict(sig, kind='multi_claim_doc_machine_rejects', reason=r2[1]), None, f'documented machine rejects the module with {what}'))
                break
            if r2[0] in ('ACCEPT', 'MAYREJECT'):
                jr = sorted(rm.show(t) for kk, t in r2[2].journal if kk == 'proved')
                if len(jr) != len(cl):
                    out['viol'].append((dict(sig, kind='multi_claim_wrong_count'), None, f'journal proves {jr}: module with {what}'))
                    break
    return out


SHIPPED = [('proof_generation.proofs.propositional', 'Propositional'), ('proof_generation.proofs.small_theory', 'SmallTheory'),
           ('proof_generation.proofs.substitution', 'Substitution'), ('proof_generation.tautology', 'Tautology'),
           ('proof_generation.proofs.kore', 'KoreLemmas'), ('proof_generation.proofs.definedness', 'Definedness')]


def merge(chk, res, agg):
    oks = []
    for out in res:
        for k, v in out.items():
            if k == 'viol':
                for sig, d, what in v:
                    chk.violation(sig, {'descriptor': d, 'signature': sig}, what)
            elif k == 'ok':
                oks += v
            else:
                agg[k] = agg.get(k, 0) + v
    return oks


def replay(path: str) -> int:
    v = json.loads(open(path).read())
    d = tup(v['replay'].get('descriptor'))
    print(v.get('what'))
    if d is None:
        return 1
    out = judge_chunk(([d], not (d[0] == 'lemma')))
    print({k: x for k, x in out.items() if k not in ('viol', 'ok')})
    for sig, _, what in out['viol']:
        print('still failing:', sig, what[:400])
    return 1 if out['viol'] else 0


def main(argv=None) -> int:
    argv = argv or []
    if argv and argv[0] == '--replay':
        return replay(argv[1])
    chk = common.Check(PROP, 'model_checking')
    thorough = chk.tier == 'thorough'
    common.build_harness()
    agg: dict = {}
    n = common.ncpu() * 6
    # shipped modules
    for out in par.pmap(shipped_chunk, SHIPPED):
        agg['shipped_runs'] = agg.get('shipped_runs', 0) + out['evals']
        for sig, d, what in out['viol']:
            chk.violation(sig, {'signature': sig}, what)
    from . import modgraph
    gspecs = [sp for sp in modgraph.family(4 if thorough else 3) if sp[2] != 'none']
    for out in par.pmap(graph_chunk, par.chunks(gspecs, n)):
        agg['graph_modules'] = agg.get('graph_modules', 0) + out['evals']
        for sig, d, what in out['viol']:
            chk.violation(sig, {'signature': sig}, what)
    # modules with several claims, proofs listed in every order
    for out in par.pmap(multi_chunk, par.chunks(multi_specs(4 if thorough else 3), n)):
        agg['multi_claim_modules'] = agg.get('multi_claim_modules', 0) + out['evals']
        agg['multi_claim_accepted'] = agg.get('multi_claim_accepted', 0) + out['accepted']
        for sig, d, what in out['viol']:
            chk.violation(sig, {'signature': sig}, what)
    # level 0 + lemmas
    l0 = lemma_descs(5 if thorough else 4)
    ok0 = merge(chk, par.pmap(judge_chunk, [(ch, False) for ch in par.chunks(l0, n)]), agg)
    ok0 += merge(chk, par.pmap(judge_chunk, [(ch, True) for ch in par.chunks(level0(4), n)]), agg)
    levels = [len(ok0)]
    prim0 = [d for d in ok0 if d[0] != 'lemma']
    # level 1: every constructor on the primitives; instantiate/gen on a few lemma instances as well
    lem_sample = [d for d in ok0 if d[0] == 'lemma' and d[1] in ('imp_refl', 'bot_elim', 'dneg_intro', 'absurd', 'peirce_bot', 'and_l_imp', 'con3')][::5]
    l1 = successors(prim0, prim0, 12 if thorough else 9, 6 if thorough else 4)
    l1 += successors(lem_sample, [], 6, 3, with_mp=False)
    nax = len(make_lib(light=True).get_axioms())
    for axi in (nax - 2, nax - 1):
        for k in ('inst', 'dinst'):
            l1 += [(k, ('ax', axi), m) for m in (((0, 3),), ((0, 2),), ((1, 2),), ((1, 0),), ((0, 3), (1, 2)), ((1, 5), (0, 2)), ((0, 1),))]
            l1 += [(k, (k, ('ax', axi), ((1, 1),)), ((0, 3),)), (k, (k, ('ax', axi), ((1, 2),)), ((0, 3),))]
    # generalisation over the variable of a pending substitution whose plug mentions that variable (toolkit and checker must agree)
    for d in (('prop1',), ('prop2',)):
        for k in (0, 1):
            for i in (19, 20, 9):
                for x in (0, 1):
                    l1.append(('gen', ('inst', d, ((k, i),)), x))
                    l1.append(('gen', ('dinst', d, ((k, i),)), x))
    # the Quantifier axiom (its body carries a pending substitution) instantiated with binder notation / pending substitutions
    for k in ('inst', 'dinst'):
        for i in (22, 23, 19, 20, 9, 12, 5):
            l1.append((k, ('exists_quantifier',), ((0, i),)))
    for i in (19, 20, 9, 10):
        for x in (0, 1):
            l1.append(('gen', ('lemma', 'imp_refl', (i,)), x))     # the consequent IS the pending substitution
            l1.append(('gen', ('inst', ('lemma', 'imp_refl', (0,)), ((0, i),)), x))
    # symbol numbering across the three files: plugs whose symbols are first met in the proof phase in another order
    for d in (('prop1',), ('prop2',), ('ax', 0)):
        for k in ('inst', 'dinst'):
            l1 += [(k, d, ((0, i),)) for i in (11, 17, 18)]
            l1 += [(k, d, m) for m in (((0, 17), (1, 3)), ((0, 3), (1, 17)), ((1, 18), (0, 17)), ((0, 18), (1, 11)))]
    for d in (('prop1',), ('prop2',)):
        for k in ('inst', 'dinst'):
            l1 += [(k, d, ((0, 24), (1, 25))), (k, d, ((0, 25), (1, 24))), (k, d, ((1, 24), (0, 25)))]
    ok1 = merge(chk, par.pmap(judge_chunk, [(ch, True) for ch in par.chunks(l1, n)]), agg)
    levels.append(len(ok1))
    # level 2: accepted level-1 expressions, distinct conclusions only (same conclusion -> same futures for mp/inst/gen)
    from . import bridge
    lib = make_lib(light=True)
    seen = set()
    rep1 = []
    for d in ok1:
        try:
            key = rm.show(bridge.expand(build(d, lib).conc))
        except Exception:  # noqa: BLE001
            continue
        if key not in seen:
            seen.add(key)
            rep1.append(d)
    rep1 = rep1[:(600 if thorough else 120)]
    l2 = successors(rep1, prim0 + rep1, 5 if thorough else 4, 0, with_mp=True)
    ok2 = merge(chk, par.pmap(judge_chunk, [(ch, True) for ch in par.chunks(l2, n)]), agg)
    levels.append(len(ok2))
    agg['level2_representatives'] = len(rep1)
    # slot budget of the optimising pipeline: about 256 patterns worth saving beside the axioms
    from . import c03
    for (kind, nn), out in zip([('memo', k) for k in (250, 254, 255, 256, 300)], par.pmap(c03.capacity_chunk, [('memo', k) for k in (250, 254, 255, 256, 300)])):
        agg['evals'] = agg.get('evals', 0) + 1
        for sig, what in out['viol']:
            sig = dict(sig, kind='optimise_' + sig['kind'])
            chk.violation(sig, {'signature': sig}, what)
    pyrun.cleanup()
    chk.set('states', len(ok0) + len(ok1) + len(ok2))
    chk.set('transitions', agg.get('evals', 0))
    chk.set('traces_validated_against_impl', agg.get('modules_verified', 0) + agg.get('shipped_runs', 0) + agg.get('graph_modules', 0)
            + agg.get('multi_claim_accepted', 0))
    chk.set('exhaustive', True)
    chk.set('accepted_expressions_per_level', levels)
    chk.set('detail', agg)
    chk.sample({'expression': show_desc(ok1[len(ok1) // 2]) if ok1 else None})
    chk.sample({'expression': show_desc(ok2[len(ok2) // 2]) if ok2 else None})
    chk.sample({'pool': [str(p) for p in pool()]})
    chk.assume('level 2 expands one representative per distinct level-1 conclusion (capped; cap reported in detail)')
    chk.assume('acceptance = real Rust verify() on the three files written by the real ProofExp.serialize; reference machine as second oracle')
    return chk.finish()


if __name__ == '__main__':
    sys.exit(main(sys.argv[1:]))
