"""C08 -- a proof means the same under every interpreter.

Product exploration: (proof expressions of C02's level 0/1 + library lemmas at pool arguments + degenerate shapes:
empty instantiation map, repeated instantiation, identical premises, one thunk used twice) x 15 interpreter stacks
(Basic, Stateful, Counting, Serializing, PrettyPrinting, Memoizing / InstantiationOptimizer over each and
two-deep stacks, with the analyser's suggestions and with aggressive memoisation).
Oracle: per expression the outcomes over all stacks form a singleton -- all raise or all return the same
conclusions, equal (after expansion) to the advertised conclusion; the bytes written under a transformer are still
accepted by the real checker."""
from __future__ import annotations

import io
import json
import sys

from . import common, par, pyrun
from . import refmachine as rm
from . import c02

PROP = 'C08'


class NB(io.BytesIO):
    def close(self):
        pass


class NS(io.StringIO):
    def close(self):
        pass


def subpatterns(p, acc):
    from . import bridge
    P = bridge.P
    acc.add(p)
    if isinstance(p, (P.Implies, P.App)):
        subpatterns(p.left, acc)
        subpatterns(p.right, acc)
    elif isinstance(p, (P.Exists, P.Mu)):
        subpatterns(p.subpattern, acc)
    elif isinstance(p, P.Instantiate):
        for v in p.inst.values():
            subpatterns(v, acc)
    return acc


def stacks(claims_patterns, module, aggressive):
    """-> list of (name, factory) ; factory() -> (interpreter, serializing buffers or None)"""
    from . import bridge  # noqa: F401
    from proof_generation.basic_interpreter import BasicInterpreter
    from proof_generation.claim import Claim
    from proof_generation.counting_interpreter import CountingInterpreter
    from proof_generation.interpreter import ExecutionPhase
    from proof_generation.optimizing_interpreters import InstantiationOptimizer, MemoizingInterpreter
    from proof_generation.pretty_printing_interpreter import PrettyPrintingInterpreter
    from proof_generation.serializing_interpreter import SerializingInterpreter
    from proof_generation.stateful_interpreter import StatefulInterpreter
    G = ExecutionPhase.Gamma

    def cl():
        return [Claim(c) for c in claims_patterns]

    def basic():
        return BasicInterpreter(G), None

    def stateful():
        return StatefulInterpreter(G, cl()), None

    def counting():
        return CountingInterpreter(G, cl()), None

    def ser():
        b = [NB(), NB(), NB()]
        return SerializingInterpreter(G, b[0], cl(), b[1], b[2]), b

    def pretty():
        b = [NS(), NS(), NS()]
        return PrettyPrintingInterpreter(G, b[0], cl(), b[1], b[2]), None

    def sugg():
        if aggressive is not None:
            return set(aggressive)
        an = CountingInterpreter(G, cl())
        module.execute_full(an)
        return an.finalize()

    def wrap(f, base):
        def g():
            it, b = base()
            return f(it), b
        return g

    memo = lambda it: MemoizingInterpreter(it, sugg())  # noqa: E731
    iopt = lambda it: InstantiationOptimizer(it)  # noqa: E731
    return [
        ('basic', basic), ('stateful', stateful), ('counting', counting), ('serializing', ser), ('pretty', pretty),
        ('memo(stateful)', wrap(memo, stateful)), ('memo(serializing)', wrap(memo, ser)), ('memo(pretty)', wrap(memo, pretty)),
        ('memo(basic)', wrap(memo, basic)),
        ('iopt(stateful)', wrap(iopt, stateful)), ('iopt(serializing)', wrap(iopt, ser)), ('iopt(basic)', wrap(iopt, basic)),
        ('memo(iopt(serializing))', wrap(memo, wrap(iopt, ser))), ('iopt(memo(serializing))', wrap(iopt, wrap(memo, ser))),
        ('memo(memo(stateful))', wrap(memo, wrap(memo, stateful))),
    ]


def run_on(module, interp):
    """execute_full, but keeping the conclusions each proof expression returns"""
    module.execute_gamma_phase(interp)
    module.execute_claims_phase(interp)
    concs = []
    for pe in module.get_proof_expressions():
        proved = pe(interp)
        concs.append(proved.conclusion)
        interp.publish_proof(proved)
    return concs


def axioms_of(lib):
    """the theory the expressions run in: the library's axioms, one of them declared a second time at the end (a theory
    assembled from several sources may repeat an axiom; every publication takes a memory slot)"""
    ax = lib.get_axioms()
    return list(ax) + [ax[1]] if len(ax) > 1 else list(ax)


def build_ext(d, lib):
    k = d[0]
    if k == 'lemma2':
        return getattr(lib, d[1])(build_ext(d[2], lib), build_ext(d[3], lib))
    if k in ('mp',):
        return lib.modus_ponens(build_ext(d[1], lib), build_ext(d[2], lib))
    if k in ('inst', 'dinst', 'gen'):
        from . import bridge
        P = bridge.P
        PL = c02.pool()
        inner = build_ext(d[1], lib)
        if k == 'gen':
            return lib.exists_generalization(inner, P.EVar(d[2]))
        delta = {kk: PL[i] for kk, i in d[2]}
        return lib.instantiate(inner, delta) if k == 'inst' else lib.dynamic_inst(inner, delta)
    return c02.build(d, lib)


def expressions(thorough: bool):
    prim = c02.level0(4)
    lem = c02.lemma_descs(4 if thorough else 3, only=('imp_refl', 'bot_elim', 'dneg_intro', 'absurd', 'peirce_bot', 'and_l_imp', 'con3'))
    out = list(prim) + lem
    out += c02.successors(prim, prim, 9 if thorough else 5, 4 if thorough else 2)
    # degenerate shapes
    for d in prim + lem[::5]:
        out.append(('inst', d, ()))
        out.append(('dinst', d, ()))
        out.append(('inst', ('inst', d, ((0, 1),)), ((1, 0),)))          # repeated instantiation
        out.append(('inst', ('inst', d, ()), ((0, 2),)))
        out.append(('lemma2', 'and_intro', d, d))                        # the same thunk used twice
    # a generalisation whose result is consumed by a later rule (the premise must be gone from the tracker's stack by then)
    nax = len(c02.make_lib(light=True).get_axioms())
    allax = [('ax', i) for i in range(nax)]
    for d in prim + allax[4:]:
        for x in (0, 1):
            out.append(('inst', ('gen', d, x), ((0, 3),)))
            out.append(('dinst', ('gen', d, x), ((1, 2),)))
            out.append(('gen', ('gen', d, x), 1 - x))
            for d2 in allax:
                out.append(('mp', ('gen', d, x), d2))
    # a notation-like plug whose map was built with descending keys (insertion order != key order)
    for d in prim[:4]:
        out.append(('inst', d, ((0, 14),)))
        # constrained metavariables as plugs (positive / e_fresh / negative lists that differ from one another)
        for i in (7, 10, 15, 16, 9, 19, 20, 21):
            out.append(('inst', d, ((0, i),)))
            out.append(('dinst', d, ((1, i),)))
        out.append(('dinst', d, ((1, 14), (0, 2))))
    # the same pending substitution through a notation and written out below another substitution, both in one proof
    for d in prim[:2]:
        for k in ('inst', 'dinst'):
            out += [(k, d, ((0, 24), (1, 25))), (k, d, ((0, 25), (1, 24))), (k, d, ((1, 24), (0, 25)))]
    ir = ('lemma', 'imp_refl', (0,))
    out.append(('lemma2', 'imp_transitivity', ir, ir))
    out.append(('mp', ('inst', ('prop1',), ((0, 0), (1, 0))), ('lemma', 'imp_refl', (0,))))
    return out


def product_chunk(args):
    descs, check_bytes_stride = args[:2]
    heavy = len(args) > 2 and args[2]
    from . import bridge
    lib = c02.make_lib(light=not heavy)
    h = par.harness()
    out = {'evals': 0, 'runs': 0, 'all_ok': 0, 'all_raise': 0, 'refused_construct': 0, 'bytes_checked': 0, 'viol': []}
    n = 0
    for d in descs:
        try:
            th0 = build_ext(d, lib)
            adv = bridge.expand(th0.conc)
        except Exception:  # noqa: BLE001
            out['refused_construct'] += 1
            continue
        out['evals'] += 1
        n += 1
        outcomes = {}
        verdicts = {}
        for aggressive in (None, True):
            agg_set = None
            if aggressive:
                agg_set = subpatterns(th0.conc, set())
            # stacks need the module for the analyser run; build a fresh thunk per run (dynamic_inst mutates its map)
            names = [nm for nm, _ in stacks([th0.conc], None, agg_set)]
            for idx, nm in enumerate(names):
                if aggressive and not nm.startswith('memo') and 'memo' not in nm:
                    continue
                try:
                    th = build_ext(d, lib)
                    m = pyrun.module_for(th, axioms=axioms_of(lib))
                    fac = stacks([th.conc], pyrun.module_for(build_ext(d, lib), axioms=axioms_of(lib)), agg_set)[idx][1]
                    it, bufs = fac()
                    concs = run_on(m, it)
                    res = ('ok', tuple(rm.show(bridge.expand(c)) for c in concs))
                    if bufs is not None and n % check_bytes_stride == 0:
                        g, c, p = (b.getvalue() for b in bufs)
                        out['bytes_checked'] += 1
                        verdicts[nm + ('/aggressive' if aggressive else '')] = h.verify(g, c, p)
                        # what the bytes prove, as decoded by the reference machine, is the advertised conclusion
                        r2 = rm.verify(g, c, p)
                        if r2[0] in ('ACCEPT', 'MAYREJECT'):
                            jr = [t for kk, t in r2[2].journal if kk == 'proved']
                            if len(jr) != 1 or not c02._same_modulo_symbols(jr[0], adv):
                                out['viol'].append(({'kind': 'bytes_prove_something_else', 'stack': nm}, c02._jd(d),
                                                    f'{d}: the bytes written under {nm} prove {[rm.show(t) for t in jr]}, advertised {rm.show(adv)}'))
                except Exception as ex:  # noqa: BLE001
                    res = ('raise', common.exc_family(ex))
                out['runs'] += 1
                outcomes[nm + ('/aggressive' if aggressive else '')] = res
        if len(set(verdicts.values())) > 1:
            acc = sorted(k for k, v in verdicts.items() if v)
            rej = sorted(k for k, v in verdicts.items() if not v)
            out['viol'].append(({'kind': 'checker_verdict_differs', 'rejected_under': rej[0]}, c02._jd(d),
                                f'{d}: the checker accepts the bytes written under {acc[:3]} but rejects those written under {rej[:3]}'))
        kinds = {r[0] for r in outcomes.values()}
        if kinds == {'ok'}:
            out['all_ok'] += 1
            vals = {r[1] for r in outcomes.values()}
            if len(vals) != 1:
                out['viol'].append(({'kind': 'conclusions_differ', 'top': d[0]}, c02._jd(d), f'{d}: conclusions differ between interpreters: {sorted(vals)[:3]}'))
            elif next(iter(vals)) != (rm.show(adv),):
                out['viol'].append(({'kind': 'not_advertised', 'top': d[0]}, c02._jd(d), f'{d}: interpreters conclude {next(iter(vals))}, advertised {rm.show(adv)}'))
        elif kinds == {'raise'}:
            out['all_raise'] += 1
        else:
            ok = sorted(k for k, r in outcomes.items() if r[0] == 'ok')
            bad = sorted((k, r[1]) for k, r in outcomes.items() if r[0] == 'raise')
            shape = 'empty_map' if (d[0] in ('inst', 'dinst') and d[2] == ()) or (d[0] == 'inst' and d[1][0] == 'inst' and d[1][2] == ()) else d[0]
            out['viol'].append(({'kind': 'outcome_differs', 'shape': shape, 'failing': bad[0][0], 'exc': bad[0][1]}, c02._jd(d),
                                f'{d}: succeeds under {ok[:4]} but fails under {bad[:4]}'))
    return out


def api_probe_chunk(_):
    """the interpreter API called directly, arguments by keyword and by position: every interpreter hands back the same pattern"""
    from . import bridge
    P = bridge.P
    out = {'evals': 0, 'runs': 0, 'viol': []}
    x0, X0 = P.EVar(0), P.SVar(0)
    calls = [('metavar', (), dict(id=0, e_fresh=(x0,))), ('metavar', (1,), dict(s_fresh=(X0,), positive=(X0,))),
             ('metavar', (2,), dict(negative=(X0,), application_context=(x0,))), ('metavar', (3, (x0,), (X0,)), {}),
             ('evar', (), dict(id=1)), ('symbol', (), dict(name='s'))]
    names = [nm for nm, _ in stacks([], None, set())][:5]
    for meth, pos, kw in calls:
        out['evals'] += 1
        results = {}
        for idx, nm in enumerate(names):
            it, _ = stacks([], None, set())[idx][1]()
            out['runs'] += 1
            try:
                results[nm] = ('ok', rm.show(bridge.expand(getattr(it, meth)(*pos, **kw))))
            except Exception as ex:  # noqa: BLE001
                results[nm] = ('raise', common.exc_family(ex))
        if len(set(results.values())) > 1:
            out['viol'].append(({'kind': 'api_call_differs', 'method': meth}, [meth, repr(pos), repr(kw)],
                                f'{meth}{pos}{kw}: interpreters disagree: {results}'))
    return out


def replay(path: str) -> int:
    v = json.loads(open(path).read())
    print(v.get('what'))
    if 'capacity' in v['replay']:
        from . import c03
        out = c03.capacity_chunk(tuple(v['replay']['capacity']))
        return 1 if out['viol'] else 0
    d = c02.tup(v['replay'].get('descriptor'))
    out = product_chunk(([d], 1))
    for sig, _, what in out['viol']:
        print('still failing:', sig, what[:400])
    return 1 if out['viol'] else 0


def main(argv=None) -> int:
    argv = argv or []
    if argv and argv[0] == '--replay':
        return replay(argv[1])
    chk = common.Check(PROP, 'model_checking')
    thorough = chk.tier == 'thorough'
    common.build_harness()
    agg: dict = {}
    E = expressions(thorough)
    heavy = [('ax', 5), ('mp', ('ax', 6), ('ax', 7)), ('gen', ('ax', 6), 0), ('lemma', 'resolution', (0, 1, 2))]
    work = [(ch, 5) for ch in par.chunks(E, common.ncpu() * 6)] + [([d], 1, True) for d in heavy]
    for out in par.pmap(product_chunk, work):
        for k, v in out.items():
            if k == 'viol':
                for sig, d, what in v:
                    chk.violation(sig, {'descriptor': d, 'signature': sig}, what)
            else:
                agg[k] = agg.get(k, 0) + v
    for out in [api_probe_chunk(None)]:
        agg['evals'] = agg.get('evals', 0) + out['evals']
        agg['runs'] = agg.get('runs', 0) + out['runs']
        for sig, d, what in out['viol']:
            chk.violation(sig, {'api_call': d, 'signature': sig}, what)
    # slot budget of the shipped optimising stack (counting pass -> memoiser over the serialiser): proofs with
    # about 256 patterns worth saving must still run there, as they do on the plain serialiser
    from . import c03
    memo_cases = [('memo', n) for n in ((3, 200, 250, 253, 254, 255, 256, 257, 258, 300, 400, 600) if thorough else (200, 254, 255, 256, 300))]
    for (kind, n), out in zip(memo_cases, par.pmap(c03.capacity_chunk, memo_cases)):
        agg['evals'] = agg.get('evals', 0) + 1
        agg['runs'] = agg.get('runs', 0) + 2
        for sig, what in out['viol']:
            sig = dict(sig, kind='optimising_stack_' + sig['kind'])
            chk.violation(sig, {'capacity': [kind, n], 'signature': sig}, what)
    chk.set('states', agg.get('evals', 0))
    chk.set('transitions', agg.get('runs', 0))
    chk.set('traces_validated_against_impl', agg.get('runs', 0))
    chk.set('exhaustive', True)
    chk.set('detail', agg)
    chk.set('bounds', {'expressions': len(E), 'interpreter_stacks': 15, 'memoisation_sets': ['analyser suggestions', 'all sub-patterns of the conclusion']})
    chk.sample({'expression': str(E[len(E) // 2]), 'stacks': ['basic', 'stateful', 'counting', 'serializing', 'pretty', 'memo(...)', 'iopt(...)']})
    chk.assume('a state of the product = one expression; a transition = running it on one interpreter stack inside a module that declares the axioms')
    return chk.finish()


if __name__ == '__main__':
    sys.exit(main(sys.argv[1:]))
