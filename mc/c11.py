"""C11 -- substitution and instantiation obey their algebra.

Bounded-exhaustive one-step exploration of
  Python: Pattern.apply_esubst / apply_ssubst / instantiate (incl. notation, partial maps, maps whose values
          mention metavariables, composition of maps), against the textbook meta-level reference (refpat);
  Rust:   apply_esubst / apply_ssubst / instantiate_internal reached through the harness, against the same
          reference (three-valued on capture), modulo redundant pending substitutions;
  semantics: the substitution lemma on the finite-model semantics E3 for the concrete part of the space.
"""
from __future__ import annotations

import itertools
import json
import sys

from . import common, par, refpat, semantics, universe
from . import refmachine as rm

PROP = 'C11'


# ------------------------------------------------------------------------------------------------
# Python side
# ------------------------------------------------------------------------------------------------

def py_pools():
    from . import bridge
    P = bridge.P
    from frozendict import frozendict
    plugs = [P.EVar(0), P.EVar(1), P.SVar(0), P.Symbol('s0'), P.bot(), P.MetaVar(0), P.MetaVar(1),
             P.Implies(P.EVar(0), P.EVar(1)), P.Exists(0, P.EVar(0)), P.neg(P.MetaVar(0)),
             P._and(P.MetaVar(0), P.EVar(1)), P.ESubst(P.MetaVar(1), P.EVar(0), P.EVar(1)),
             P.Mu(0, P.SVar(0)), P.MetaVar(2, e_fresh=(P.EVar(0),)), P.Exists(1, P.MetaVar(2))]
    partial = [P.Instantiate(P.Implies(P.MetaVar(0), P.MetaVar(1)), frozendict({0: P.EVar(0)})),
               P.Instantiate(P.Implies(P.MetaVar(0), P.MetaVar(1)), frozendict({1: P.MetaVar(0)})),
               P.Instantiate(P._and(P.MetaVar(0), P.MetaVar(2)), frozendict({0: P.MetaVar(1)})),
               P.Instantiate(P._and(P.MetaVar(0), P.MetaVar(1)), frozendict({1: P.Symbol('s0')})),
               # twins: the same definition and the same values under OTHER keys
               P.Instantiate(P._and(P.MetaVar(0), P.MetaVar(1)), frozendict({0: P.Symbol('s0')})),
               P.Instantiate(P.Implies(P.MetaVar(0), P.MetaVar(1)), frozendict({1: P.EVar(0)})),
               P.Instantiate(P._or(P.MetaVar(2), P.equiv(P.MetaVar(0), P.MetaVar(1))), frozendict({1: P.EVar(0)})),
               # notation applied to SHIFTED metavariables, partially instantiated: a plug's metavariable is a later key
               P.Instantiate(P._or(P.MetaVar(1), P.MetaVar(2)), frozendict({2: P.Symbol('s0')})),
               P.Instantiate(P._or(P.MetaVar(1), P.MetaVar(2)), frozendict({2: P.MetaVar(0)})),
               P._or(P.MetaVar(1), P.MetaVar(2)), P._and(P.MetaVar(2), P.MetaVar(0)),
               # two-digit metavariable numbers (2 < 10 as numbers, '10' < '2' as strings)
               P.Implies(P.MetaVar(2), P.MetaVar(10)), P._and(P.MetaVar(10), P.MetaVar(2)),
               P.Instantiate(P._or(P.MetaVar(10), P.MetaVar(2)), frozendict({2: P.Symbol('s0')})),
               P.Instantiate(P.Exists(0, P.Implies(P.MetaVar(1), P.MetaVar(0))), frozendict({0: P.MetaVar(1)})),
               P.Instantiate(P.ESubst(P.MetaVar(0), P.EVar(0), P.MetaVar(1)), frozendict({1: P.EVar(1)})),
               # stacks of pending substitutions whose INNER plug mentions a metavariable other than the one at the bottom
               P.ESubst(P.ESubst(P.MetaVar(0), P.EVar(0), P.App(P.MetaVar(1), P.EVar(1))), P.EVar(1), P.Symbol('s0')),
               P.ESubst(P.SSubst(P.MetaVar(0), P.SVar(0), P.MetaVar(1)), P.EVar(0), P.Symbol('s0')),
               P.SSubst(P.ESubst(P.MetaVar(0), P.EVar(0), P.MetaVar(1)), P.SVar(0), P.MetaVar(2)),
               P.SSubst(P.SSubst(P.MetaVar(0), P.SVar(0), P.App(P.MetaVar(1), P.SVar(1))), P.SVar(1), P.Symbol('s0'))]
    return plugs, partial


def py_space(size: int):
    from . import bridge
    plugs, partial = py_pools()
    S = list(bridge.repo_universe(size, extra_meta=True)) + partial
    # a second layer: partial instantiations below a constructor / inside notation
    P = bridge.P
    S += [P.Implies(partial[0], P.MetaVar(1)), P.neg(partial[1]), P.Exists(0, partial[2]), P._or(partial[0], partial[3])]
    return S, plugs


def show_py(p):
    return str(p)


def py_subst_chunk(args):
    idx, size = args
    from . import bridge
    S, plugs = py_space(size)
    out = {'evals': 0, 'changed': set(), 'viol': [], 'identity': 0, 'deferred': 0}
    for i in idx:
        p = S[i]
        ep = bridge.expand(p)
        for sort in ('e', 's'):
            for var in (0, 1):
                for j, plug in enumerate(plugs):
                    out['evals'] += 1
                    try:
                        r = p.apply_esubst(var, plug) if sort == 'e' else p.apply_ssubst(var, plug)
                        er = bridge.expand(r)
                    except Exception as ex:  # noqa: BLE001
                        out['viol'].append(({'op': 'apply_%ssubst' % sort, 'pattern': repr(p), 'var': var, 'plug': repr(plug)},
                                            f'raised {type(ex).__name__}: {ex}'))
                        continue
                    want = refpat.msubst(ep, sort, var, bridge.expand(plug), 'drop_mv')
                    if er != want and rm.norm(er) != rm.norm(want):
                        out['viol'].append(({'op': 'apply_%ssubst' % sort, 'pattern': repr(p), 'var': var, 'plug': repr(plug)},
                                            f'{show_py(p)}[{show_py(plug)}/{sort}{var}] = {rm.show(er)} expected {rm.show(want)}'))
                        continue
                    if er != ep:
                        out['changed'].add((i, sort, var, j))
                    # identity when the variable does not occur (concrete patterns: ground truth free variables)
                    if refpat.is_concrete(ep) and (sort, var) not in refpat.fv(ep):
                        out['identity'] += 1
                        if rm.norm(er) != rm.norm(ep):
                            out['viol'].append(({'op': 'identity', 'pattern': repr(p), 'var': var, 'sort': sort, 'plug': repr(plug)},
                                                f'substituting a variable that does not occur changed {show_py(p)}'))
                    if ep[0] == 'mv':
                        out['deferred'] += 1
    out['changed'] = len(out['changed'])
    return out


def maps_for(ids, plugs, full: bool):
    """instantiation maps over `ids` (subset of {0,1,2}): total, partial, values mentioning metavariables"""
    ids = sorted(ids)
    pool = plugs if full else plugs[:9]
    keysets = []
    for r in range(0, min(len(ids), 2) + 1):
        keysets += list(itertools.combinations(ids, r))
    if len(ids) == 3:
        keysets.append(tuple(ids))
    # maps may also mention metavariables that do not occur in the pattern
    extra = [k for k in (0, 1, 2) if k not in ids][:1]
    for ks in list(keysets):
        for e in extra:
            if len(ks) <= 1:
                keysets.append(tuple(sorted(ks + (e,))))
    seen = set()
    for ks in keysets:
        if ks in seen:
            continue
        seen.add(ks)
        vals_pool = pool if len(ks) <= 1 else pool[:7] if len(ks) == 2 else pool[:4]
        for vals in itertools.product(range(len(vals_pool)), repeat=len(ks)):
            yield {k: vals_pool[v] for k, v in zip(ks, vals)}


def py_inst_chunk(args):
    idx, size, full = args
    from . import bridge
    S, plugs = py_space(size)
    out = {'evals': 0, 'changed': 0, 'viol': [], 'composed': 0, 'partial_maps': 0, 'meta_valued': 0}
    d2s = [{0: plugs[1], 1: plugs[0]}, {0: plugs[6], 1: plugs[5], 2: plugs[3]}, {1: plugs[7]}, {}, {2: plugs[9]}]
    for i in idx:
        p = S[i]
        ep = bridge.expand(p)
        ids = refpat.mv_ids(ep)
        for delta in maps_for(ids, plugs, full):
            out['evals'] += 1
            ed = {k: bridge.expand(v) for k, v in delta.items()}
            # the reference's admissibility: constrained metavariables must be instantiated by plugs that the
            # document's judgements accept (the generator's own check is a stub; that gap belongs to C07)
            ok = True
            for m in refpat.metavars(ep):
                if m[1] in ed:
                    pl = ed[m[1]]
                    if any(not rm.e_fresh(pl, x) for x in m[2]) or any(not rm.s_fresh(pl, X) for X in m[3]) \
                            or any(not rm.positive(pl, X) for X in m[4]) or any(not rm.negative(pl, X) for X in m[5]):
                        ok = False
            if not ok:
                continue
            try:
                r = p.instantiate(delta)
                er = bridge.expand(r)
            except Exception as ex:  # noqa: BLE001
                out['viol'].append(({'op': 'instantiate', 'pattern': repr(p), 'delta': repr(delta)},
                                    f'raised {type(ex).__name__}: {ex}'))
                continue
            want = refpat.minst(ep, ed, 'drop_mv')
            if er != want and rm.norm(er) != rm.norm(want):
                out['viol'].append(({'op': 'instantiate', 'pattern': repr(p), 'delta': repr(delta)},
                                    f'{show_py(p)}.instantiate({ {k: show_py(v) for k, v in delta.items()} }) = {rm.show(er)} expected {rm.show(want)}'))
                continue
            if er != ep:
                out['changed'] += 1
            if ids - set(delta):
                out['partial_maps'] += 1
            if any(refpat.mv_ids(v) for v in ed.values()):
                out['meta_valued'] += 1
            # composition with a second map
            for d2 in d2s:
                out['composed'] += 1
                comp = {k: v.instantiate(d2) for k, v in delta.items()}
                for k, v in d2.items():
                    comp.setdefault(k, v)
                try:
                    lhs = bridge.expand(r.instantiate(d2))
                    rhs = bridge.expand(p.instantiate(comp))
                except Exception as ex:  # noqa: BLE001
                    out['viol'].append(({'op': 'compose', 'pattern': repr(p), 'd1': repr(delta), 'd2': repr(d2)},
                                        f'raised {type(ex).__name__}: {ex}'))
                    continue
                # admissibility of the second step as well
                want2 = refpat.minst(want, {k: bridge.expand(v) for k, v in d2.items()}, 'drop_mv')
                if rm.norm(lhs) != rm.norm(rhs) or rm.norm(lhs) != rm.norm(want2):
                    # only report when the second step respects the constraints of what is left
                    ok2 = True
                    for m in refpat.metavars(want):
                        if m[1] in d2:
                            pl = bridge.expand(d2[m[1]])
                            if any(not rm.e_fresh(pl, x) for x in m[2]) or any(not rm.s_fresh(pl, X) for X in m[3]):
                                ok2 = False
                    if ok2:
                        out['viol'].append(({'op': 'compose', 'pattern': repr(p), 'd1': repr(delta), 'd2': repr(d2)},
                                            f'{show_py(p)}: inst(d1).inst(d2)={rm.show(lhs)} inst(d1 o d2)={rm.show(rhs)} reference={rm.show(want2)}'))
    return out


# ------------------------------------------------------------------------------------------------
# Rust side
# ------------------------------------------------------------------------------------------------

def rust_chunk(args):
    terms, plugs, mode = args
    h = par.harness()
    out = {'evals': 0, 'agree': 0, 'refused_ok': 0, 'mayreject': 0, 'viol': [], 'changed': 0, 'unconstructible': 0}
    reqs = []
    meta = []
    if mode == 'subst':
        for t in terms:
            tb = universe.term_bytes(t)
            for pl in plugs:
                pb = universe.term_bytes(pl)
                for sort in ('e', 's'):
                    for var in (0, 1):
                        reqs.append(f'U {(pb + tb).hex()} {sort} {var}')
                        meta.append((t, pl, sort, var))
    else:
        for t in terms:
            ids = sorted(refpat.mv_ids(t))
            if not ids:
                ids = [0]
            tb = universe.term_bytes(t)
            combos = []
            for k in ids:
                for pl in plugs:
                    combos.append(((k,), (pl,)))
            if len(ids) >= 2:
                for a, b in itertools.permutations(ids[:3], 2):
                    for p1 in plugs[:6]:
                        for p2 in plugs[:6]:
                            combos.append(((a, b), (p1, p2)))
            # duplicate id: first occurrence wins
            combos.append(((ids[0], ids[0]), (plugs[0], plugs[1])))
            for ks, pls in combos:
                prog = b''.join(universe.term_bytes(p) for p in reversed(pls)) + tb
                reqs.append(f'I {prog.hex()} {",".join(str(k) for k in ks)}')
                meta.append((t, ks, pls))
    ans = h.ask_many(reqs)
    for m, a in zip(meta, ans):
        out['evals'] += 1
        if mode == 'subst':
            t, pl, sort, var = m
            results = {}
            for pol in rm.POLICIES:
                ctx = rm.Ctx(pol)
                try:
                    r = rm.subst_e(t, var, pl, ctx) if sort == 'e' else rm.subst_s(t, var, pl, ctx)
                    results[pol] = ('OK', rm.norm(r), ctx.may_reject)
                except rm.Reject as rj:
                    results[pol] = ('REJECT', rj.reason, False)
            desc = {'op': 'rust_apply_%ssubst' % sort, 'term': rm.show(t), 'var': var, 'plug': rm.show(pl)}
        else:
            t, ks, pls = m
            results = {}
            for pol in rm.POLICIES:
                ctx = rm.Ctx(pol)
                try:
                    r = rm.instantiate(t, list(ks), list(pls), ctx)
                    results[pol] = ('OK', rm.norm(r), ctx.may_reject)
                except rm.Reject as rj:
                    results[pol] = ('REJECT', rj.reason, False)
                except rm.Unspecified:
                    results[pol] = ('UNSPEC', None, False)
            desc = {'op': 'rust_instantiate', 'term': rm.show(t), 'ids': list(ks), 'plugs': [rm.show(p) for p in pls]}
        kinds = {v[0] for v in results.values()}
        if 'UNSPEC' in kinds or len(kinds) > 1:
            continue
        if a == 'REJECT' and kinds == {'OK'} and not any(v[2] for v in results.values()):
            # the harness also answers REJECT when the operands cannot be constructed (ill-formed)
            chk = h.ask(f'R 2 - - {reqs[out["evals"] - 1].split()[1]}')
            if chk == 'REJECT':
                out['unconstructible'] += 1
                continue
            out['viol'].append((desc, f'checker refuses although the reference finds no capture / violated constraint'))
            continue
        if a == 'REJECT':
            if kinds == {'REJECT'}:
                out['refused_ok'] += 1
            else:
                out['mayreject'] += 1
            continue
        got = rm.norm(rm.parse(a[3:]))
        if kinds == {'REJECT'}:
            chk = h.ask(f'R 2 - - {reqs[out["evals"] - 1].split()[1]}')
            out['viol'].append((desc, f'checker returns {a[3:]} although the reference reports {results["wrap"][1]}'))
            continue
        wants = {v[1] for v in results.values()}
        if got not in wants:
            out['viol'].append((desc, f'checker returns {a[3:]}, reference {rm.show(results["wrap"][1])}'))
            continue
        out['agree'] += 1
        if got != rm.norm(t):
            out['changed'] += 1
    return out


# ------------------------------------------------------------------------------------------------
# substitution lemma on the finite-model semantics (Python implementation under test)
# ------------------------------------------------------------------------------------------------

def lemma_chunk(args):
    terms = args
    from . import bridge
    out = {'evals': 0, 'nontrivial': 0, 'viol': []}
    psis = [rm.svar(1), rm.BOT, rm.evar(0), rm.imp(rm.svar(1), rm.BOT), rm.sym(0), rm.ex(1, rm.evar(1))]
    for t in terms:
        p = bridge.to_repo(t, symname=lambda n: n)
        # set variable X0 := psi
        for psi in psis:
            _, captured = refpat.subst(t, 's', 0, psi)
            if captured:
                continue
            r = bridge.expand(p.apply_ssubst(0, bridge.to_repo(psi, symname=lambda n: n)))
            if not refpat.well_formed_concrete(r):
                continue
            ok, n = _lemma_eval(t, r, 's', 0, psi)
            out['evals'] += n
            if ('s', 0) in refpat.fv(t):
                out['nontrivial'] += 1
            if not ok:
                out['viol'].append(({'op': 'lemma_s', 'term': rm.show(t), 'plug': rm.show(psi)},
                                    f'substitution lemma fails for {rm.show(t)}[{rm.show(psi)}/X0] = {rm.show(r)}'))
        # element variable x0 := x1
        _, captured = refpat.subst(t, 'e', 0, rm.evar(1))
        if not captured:
            r = bridge.expand(p.apply_esubst(0, bridge.P.EVar(1)))
            ok, n = _lemma_eval(t, r, 'e', 0, rm.evar(1))
            out['evals'] += n
            if ('e', 0) in refpat.fv(t):
                out['nontrivial'] += 1
            if not ok:
                out['viol'].append(({'op': 'lemma_e', 'term': rm.show(t)},
                                    f'substitution lemma fails for {rm.show(t)}[x1/x0] = {rm.show(r)}'))
    return out


def _lemma_eval(t, r, sort, var, psi):
    """[[r]]rho == [[t]]rho[var -> [[psi]]rho] for all models of carrier <= 2 (symbol 0 and a fixed family of apps)"""
    n_evals = 0
    ev, sv, sy, fl = [], [], [], {}
    for u in (t, r, psi):
        semantics.collect(u, ev, sv, sy, fl)
    if sort == 'e' and var not in ev:
        ev.append(var)
    if sort == 's' and var not in sv:
        sv.append(var)
    for n in (1, 2):
        nsub = 1 << n
        apps = [tuple([0] * (n * n))]
        if fl.get('app'):
            apps = list(itertools.product(range(nsub), repeat=n * n)) if n == 1 else \
                [tuple((a * (i + 1) + b * (j + 1) + c) % nsub for i in range(n) for j in range(n)) for a in range(2) for b in range(2) for c in range(nsub)]
        for app in apps:
            for symv in itertools.product(range(nsub), repeat=len(sy)):
                sym = dict(zip(sy, symv))
                for evals in itertools.product(range(n), repeat=len(ev)):
                    for svals in itertools.product(range(nsub), repeat=len(sv)):
                        erho = dict(zip(ev, evals))
                        srho = dict(zip(sv, svals))
                        n_evals += 1
                        lhs = semantics.eval_term(r, n, sym, app, dict(erho), dict(srho))
                        vpsi = semantics.eval_term(psi, n, sym, app, dict(erho), dict(srho))
                        e2, s2 = dict(erho), dict(srho)
                        if sort == 's':
                            s2[var] = vpsi
                        else:
                            # psi is an element variable: its value is a singleton
                            e2[var] = erho[psi[1]]
                        rhs = semantics.eval_term(t, n, sym, app, e2, s2)
                        if lhs != rhs:
                            return False, n_evals
    return True, n_evals


# ------------------------------------------------------------------------------------------------

def replay(path: str) -> int:
    v = json.loads(open(path).read())
    print(json.dumps(v['signature'], indent=1))
    print(v.get('what'))
    sig = v['signature']
    from . import bridge
    P = bridge.P
    from frozendict import frozendict  # noqa: F401
    env = {k: getattr(P, k) for k in dir(P)}
    env['frozendict'] = frozendict
    if sig['op'] in ('apply_esubst', 'apply_ssubst', 'identity'):
        p = eval(sig['pattern'], env)
        plug = eval(sig['plug'], env)
        sort = sig.get('sort', sig['op'][6])
        r = p.apply_esubst(sig['var'], plug) if sort == 'e' else p.apply_ssubst(sig['var'], plug)
        want = refpat.msubst(bridge.expand(p), sort, sig['var'], bridge.expand(plug), 'drop_mv')
        print('observed :', rm.show(bridge.expand(r)))
        print('reference:', rm.show(want))
        return 0 if bridge.expand(r) == want else 1
    if sig['op'] == 'instantiate':
        p = eval(sig['pattern'], env)
        delta = eval(sig['delta'], env)
        r = p.instantiate(delta)
        want = refpat.minst(bridge.expand(p), {k: bridge.expand(v) for k, v in delta.items()}, 'drop_mv')
        print('observed :', rm.show(bridge.expand(r)))
        print('reference:', rm.show(want))
        return 0 if bridge.expand(r) == want else 1
    print('(replay by re-running the check: ./check C11)')
    return 1


def merge(chk, res, prefix, agg):
    for out in res:
        for k, v in out.items():
            if k == 'viol':
                for sig, what in v:
                    chk.violation(sig, sig, what)
            else:
                agg[prefix + k] = agg.get(prefix + k, 0) + v


def main(argv=None) -> int:
    argv = argv or []
    if argv and argv[0] == '--replay':
        return replay(argv[1])
    chk = common.Check(PROP, 'exploration')
    thorough = chk.tier == 'thorough'
    common.build_harness()
    agg: dict = {}
    size = 4 if thorough else 3
    S, plugs = py_space(size)
    idx = list(range(len(S)))
    nchunks = common.ncpu() * 4
    merge(chk, par.pmap(py_subst_chunk, [(ch, size) for ch in par.chunks(idx, nchunks)]), 'py_subst_', agg)
    # instantiation: the maps per pattern are many; thorough uses the full plug pool on the size-3 universe and a
    # reduced pool on size 4
    S3, _ = py_space(3)
    merge(chk, par.pmap(py_inst_chunk, [(ch, 3, thorough) for ch in par.chunks(list(range(len(S3))), nchunks)]), 'py_inst_', agg)
    if thorough:
        extra = list(range(len(S3) - 9, len(S) - 4))  # the size-4 layer
        merge(chk, par.pmap(py_inst_chunk, [(ch, 4, False) for ch in par.chunks(extra, nchunks)]), 'py_inst_', agg)
    # query histories: the hand-written partial instantiations (and what is built on them) once more in ONE process, forwards
    # and backwards -- the oracle is absolute, so an answer that depends on what was expanded before shows in one of the orders
    _, partial_list = py_pools()
    tail = list(range(len(S3) - len(partial_list) - 4, len(S3)))
    merge(chk, par.pmap(py_inst_chunk, [(tail, 3, thorough), (tail[::-1], 3, thorough)]), 'py_insthist_', agg)
    merge(chk, par.pmap(py_subst_chunk, [(tail, 3), (tail[::-1], 3)]), 'py_substhist_', agg)
    # Rust
    mt = universe.meta(4 if thorough else 3)
    rplugs = list(universe.META_POOL[:16 if thorough else 12])
    merge(chk, par.pmap(rust_chunk, [(ch, rplugs, 'subst') for ch in par.chunks(mt, nchunks)]), 'rust_subst_', agg)
    mt2 = universe.meta(4 if thorough else 3)
    merge(chk, par.pmap(rust_chunk, [(ch, rplugs, 'inst') for ch in par.chunks(mt2, nchunks)]), 'rust_inst_', agg)
    # substitution lemma
    ct = [t for t in universe.concrete(4 if thorough else 3) if refpat.well_formed_concrete(t)]
    merge(chk, par.pmap(lemma_chunk, par.chunks(ct, nchunks)), 'lemma_', agg)
    evals = sum(v for k, v in agg.items() if k.endswith('_evals'))
    nontriv = agg.get('py_subst_changed', 0) + agg.get('py_inst_changed', 0) + agg.get('rust_subst_changed', 0) \
        + agg.get('rust_inst_changed', 0) + agg.get('lemma_nontrivial', 0)
    chk.set('evaluations', evals)
    chk.set('distinct_nontrivial', nontriv)
    chk.set('rule', 'all (pattern, variable, plug) and (pattern, map) combinations from the bounded universes; each combination is '
                    'distinct by construction; non-trivial = the operation changed the pattern (substitution/instantiation hit an '
                    'occurrence) or, for the lemma, the substituted variable occurs free')
    chk.set('exhaustive', True)
    chk.set('detail', agg)
    chk.set('bounds', {'python_universe': len(S), 'python_inst_universe': len(S3), 'plugs': len(plugs), 'rust_terms': len(mt),
                       'rust_plugs': len(rplugs), 'lemma_terms': len(ct)})
    chk.sample({'python_subst': f'{S[len(S) // 2]} [ {plugs[9]} / x0 ]'})
    chk.sample({'python_inst': f'{S3[-3]} . instantiate({{1: {plugs[5]}}})'})
    chk.sample({'rust_subst': f'U {rm.show(mt[len(mt) // 2])} e 0 {rm.show(rplugs[3])}'})
    chk.assume('reference = textbook substitution/instantiation lifted to schematic terms (mc/refpat.py: msubst, minst)')
    chk.assume('instantiation maps that violate declared metavariable constraints are outside the space (that gap is C07)')
    return chk.finish()


if __name__ == '__main__':
    sys.exit(main(sys.argv[1:]))
