"""Helpers to drive the repository's proof modules: real ProofExp.serialize into a scratch directory under
/verif/build (removed afterwards), module construction around a single proof thunk."""
from __future__ import annotations

import os
import shutil
import tempfile
from pathlib import Path

from . import common

common.setup_repo_path()

# one scratch root per check run (forked workers inherit it): concurrent checks must not remove each other's files
SCRATCH = common.BUILD / 'scratch' / f'run{os.getpid()}'


def scratch_dir() -> Path:
    SCRATCH.mkdir(parents=True, exist_ok=True)
    return Path(tempfile.mkdtemp(prefix=f'p{os.getpid()}_', dir=str(SCRATCH)))


def serialize_real(mod, optimize: bool, fmt: str = 'binary') -> dict[str, bytes]:
    """run the real ProofExp.serialize and return the produced files {suffix: content}"""
    from proof_generation.proof import OutputFormat
    import gc
    d = scratch_dir()
    try:
        mod.serialize(d / 'm', OutputFormat.Binary if fmt == 'binary' else OutputFormat.Pretty, optimize)
        gc.collect()  # IOInterpreter closes its last file in __del__
        out = {}
        for f in sorted(d.iterdir()):
            out[f.suffix[1:]] = f.read_bytes()
        return out
    finally:
        shutil.rmtree(d, ignore_errors=True)


def triple(files: dict[str, bytes]) -> tuple[bytes, bytes, bytes]:
    return files.get('ml-gamma', b''), files.get('ml-claim', b''), files.get('ml-proof', b'')


def module_for(thunk, axioms=(), notations=(), claim=None):
    """a ProofExp that claims and proves exactly `thunk`"""
    from proof_generation.proof import ProofExp
    m = ProofExp(axioms=list(axioms), notations=list(notations), claims=[claim if claim is not None else thunk.conc],
                 proof_expressions=[thunk])
    return m


def cleanup() -> None:
    import time
    shutil.rmtree(SCRATCH, ignore_errors=True)
    # leftovers of runs that died: only old ones
    try:
        for d in SCRATCH.parent.iterdir():
            if time.time() - d.stat().st_mtime > 6 * 3600:
                shutil.rmtree(d, ignore_errors=True)
    except OSError:
        pass
