"""Proof-module families for C02/C03/C18/C19: import graphs (chain, diamond, repeated import), axioms and claims
from a pool (shared / distinct symbols, notation, repeated axioms), proofs = loads of declared axioms through the
module that owns them."""
from __future__ import annotations

import itertools

from frozendict import frozendict

from . import common

common.setup_repo_path()

import proof_generation.pattern as P  # noqa: E402
from proof_generation.proof import ProofExp  # noqa: E402


def axiom_pool():
    a, b, c, f = P.Symbol('a'), P.Symbol('b'), P.Symbol('c'), P.Symbol('f')
    return [
        P.Implies(a, b), P.Implies(b, c), a, P.neg(c), P._and(a, P.MetaVar(0)), P.Exists(0, P.App(f, P.EVar(0))),
        P.Implies(P.MetaVar(0), P.MetaVar(0)), P.App(f, a), P.Implies(P.MetaVar(1, e_fresh=(P.EVar(0),)), P.Exists(0, P.MetaVar(1, e_fresh=(P.EVar(0),)))),
        P.Mu(0, P.Implies(P.neg(P.SVar(0)), b)), P.equiv(a, b), P.ESubst(P.MetaVar(0), P.EVar(0), P.App(f, P.EVar(1))),
    ]


def twin_pool():
    """axioms whose sub-patterns *print* alike but differ (constraints are not printed; notation prints like its
    expansion's sugar): anything that identifies patterns by their printed form confuses them. Addressed by
    indices 100, 101, ... in `build`."""
    x0 = P.EVar(0)
    f0 = P.MetaVar(0, e_fresh=(x0,))
    p0 = P.MetaVar(0, positive=(P.SVar(0),))
    a = P.Symbol('a')
    return [
        P.Implies(P.MetaVar(0), P.Implies(P.MetaVar(1), P.MetaVar(0))),
        P.Implies(P.MetaVar(0), P.Exists(0, P.MetaVar(0))),
        P.Implies(P.Exists(0, f0), f0),
        P.Implies(P.Mu(0, p0), p0),
        P.App(P.App(a, f0), P.MetaVar(0)),
        P.Implies(P.neg(a), P.Implies(a, P.bot())),
        # a metavariable whose only constraint is a list of application-context holes
        P.Implies(P.MetaVar(3, app_ctx_holes=(P.EVar(1),)), P.App(a, P.MetaVar(3, app_ctx_holes=(P.EVar(1),)))),
        # pending set-variable substitution as a whole axiom / claim
        P.SSubst(P.MetaVar(0), P.SVar(1), a),
        # an application of a (notation-like) definition whose argument map is not in ascending key order
        P.Instantiate(P.Implies(P.MetaVar(0), P.Implies(P.MetaVar(1), P.MetaVar(2))), frozendict({2: P.Symbol('c'), 0: a, 1: P.Symbol('b')})),
    ]


# graph shapes: list of (node name, imports (names), number of own axioms); last node is the top module
SHAPES = {
    'single': [('T', (), 2)],
    'chain': [('B', (), 1), ('M', ('B',), 1), ('T', ('M',), 1)],
    'diamond': [('B', (), 1), ('M1', ('B',), 1), ('M2', ('B',), 1), ('T', ('M1', 'M2'), 1)],
    'twice': [('B', (), 2), ('T', ('B', 'B'), 1)],
    'wide': [('B1', (), 1), ('B2', (), 1), ('T', ('B1', 'B2'), 0)],
    # a module without axioms of its own between the top module and the module that declares them (a pure lemma library)
    'chain0': [('B', (), 1), ('M', ('B',), 0), ('T', ('M',), 1)],
    'chain00': [('B', (), 2), ('M', ('B',), 0), ('T', ('M',), 0)],
}


def build(shape: str, axiom_idx: tuple, claim_mode: str = 'all', share: bool = False):
    """-> (top module, info). axiom_idx: indices into the axiom pool, consumed node by node.
    claim_mode: 'all' = one claim+proof per axiom of the import closure (load through the owner),
                'own' = only the top module's axioms, 'none' = no claims.
    share: the same axiom is declared by two different nodes (distinct owners publish equal patterns)."""
    pool = axiom_pool()
    twins = twin_pool()
    nodes = {}
    declared = {}
    order = []
    it = iter(axiom_idx)
    first_axiom = None
    for name, imports, nax in SHAPES[shape]:
        axs = []
        for _ in range(nax):
            i = next(it)
            axs.append(twins[i - 100] if i >= 100 else pool[i % len(pool)])
        if share and first_axiom is not None and name != SHAPES[shape][0][0]:
            axs = axs + [first_axiom]
        if axs and first_axiom is None:
            first_axiom = axs[0]
        declared[name] = list(dict.fromkeys(axs))         # add_axiom de-duplicates; do the same for the constructor list
        m = ProofExp(axioms=list(declared[name]))
        for imp in imports:
            m.import_module(nodes[imp])
        nodes[name] = m
        order.append(name)
    top = nodes[order[-1]]
    # expected publish order, computed from the *specification* (never from the module objects' internals):
    # imports first (in import order, recursively, repeated imports repeat), then own axioms
    spec = {name: (imports, declared[name]) for name, imports, _ in SHAPES[shape]}

    def closure(name):
        imports, axs = spec[name]
        out = []
        for i in imports:
            out += closure(i)
        return out + [(nodes[name], a) for a in axs]
    pub = closure(order[-1])
    claims = []
    proofs = []
    if claim_mode != 'none':
        seen = []
        for m, a in pub:
            if claim_mode == 'own' and m is not top:
                continue
            if any(a == x for x in seen):
                continue           # add_claim refuses duplicates
            seen.append(a)
            claims.append(a)
            proofs.append(m.load_axiom(a))
    top.add_claims(list(claims))
    top.add_proof_expressions(list(proofs))
    def published_with(extra):
        """expected publish order when the axioms `extra[name]` were added to node `name` after construction"""
        def cl(name):
            imports, axs = spec[name]
            out = []
            for i in imports:
                out += cl(i)
            seen_here = list(axs)
            for x in extra.get(name, ()):
                if not any(x == y for y in seen_here):
                    seen_here.append(x)
            return out + seen_here
        return cl(order[-1])
    return top, {'published': [a for _, a in pub], 'claims': claims, 'nodes': nodes, 'published_with': published_with}


def family(n_axiom_choices: int):
    """specs (shape, axiom indices, claim_mode, share)"""
    out = []
    pool_n = len(axiom_pool())
    for shape, nodes in SHAPES.items():
        need = sum(n for _, _, n in nodes)
        choices = list(itertools.islice(itertools.product(range(min(pool_n, n_axiom_choices)), repeat=need), 0, None))
        # distinct axioms first, then tuples with repeats
        for idx in choices:
            for mode in ('all', 'own', 'none'):
                out.append((shape, idx, mode, False))
            if need >= 2:
                out.append((shape, idx, 'all', True))
    return out


def twin_family():
    """modules over the twin pool: every ordered selection of distinct twins for three shapes, all axioms claimed"""
    n = len(twin_pool())
    out = []
    for shape in ('single', 'chain', 'twice'):
        need = sum(k for _, _, k in SHAPES[shape])
        for idx in itertools.permutations(range(100, 100 + n), need):
            out.append((shape, idx, 'all', False))
    return out


def nested_module(variant: int, with_info: bool = False):
    """a theory whose axioms contain one another (f a, f a -> f a, f a -> (f a -> f a), f a -> c) in one of several
    declaration orders; every axiom is claimed and proved by loading it, plus two prop1 instances built on the stack"""
    from proof_generation.proofs.propositional import Propositional
    f, a, c = P.Symbol('f'), P.Symbol('a'), P.Symbol('c')
    fa = P.App(f, a)
    fa_fa = P.Implies(fa, fa)
    fa_c = P.Implies(fa, c)
    fa_fa_fa = P.Implies(fa, fa_fa)
    fa_fa_c = P.Implies(fa_fa, c)
    orders = [[fa_c, fa_fa_fa, fa_fa, fa], [fa, fa_fa, fa_fa_fa, fa_c], [fa_fa, fa, fa_c, fa_fa_fa], [P.neg(fa), fa, P._and(fa, c), c]]
    m = ProofExp()
    prop = m.import_module(Propositional())
    own = orders[variant % len(orders)]
    m.add_axioms(own)
    claims = []
    for ax in own:
        m.add_claim(ax)
        claims.append(ax)
        m.add_proof_expression(m.load_axiom(ax))
    # the plugs are built on the stack in the proof phase: (c, f a) meets the symbols in another order than the theory
    for p_, q_ in [(fa_fa_fa, a), (fa_c, fa_fa_c), (c, fa)]:
        m.add_claim(P.Implies(p_, P.Implies(q_, p_)))
        claims.append(P.Implies(p_, P.Implies(q_, p_)))
        m.add_proof_expression(prop.prop1_inst(p_, q_))
    if with_info:
        # declaration, from the specification: the imported library's axioms first, then this module's own
        return m, {'published': list(Propositional().get_axioms()) + list(own), 'claims': claims}
    return m
