"""E4 -- reference pattern algebra on the tuple terms of refmachine (textbook definitions, kept boring).

Concrete terms contain no mv/esub/ssub. Ground truth for free variables, polarity, substitution
(with a capture flag, and a capture-avoiding variant), metavariable instantiation that resolves
pending substitutions, alpha-equivalence.
"""
from __future__ import annotations

from functools import lru_cache
import itertools


def is_concrete(t) -> bool:
    k = t[0]
    if k in ('evar', 'svar', 'sym'):
        return True
    if k in ('imp', 'app'):
        return is_concrete(t[1]) and is_concrete(t[2])
    if k in ('ex', 'mu'):
        return is_concrete(t[2])
    return False


@lru_cache(maxsize=1 << 16)
def fv(t) -> frozenset:
    """free variables of a concrete term as ('e', n) / ('s', n)"""
    k = t[0]
    if k == 'evar':
        return frozenset([('e', t[1])])
    if k == 'svar':
        return frozenset([('s', t[1])])
    if k == 'sym':
        return frozenset()
    if k in ('imp', 'app'):
        return fv(t[1]) | fv(t[2])
    if k == 'ex':
        return fv(t[2]) - {('e', t[1])}
    if k == 'mu':
        return fv(t[2]) - {('s', t[1])}
    raise ValueError(f'fv of non-concrete term {k}')


def all_vars(t, acc=None):
    """all variable ids occurring anywhere (bound or free, binders included), including inside meta terms"""
    if acc is None:
        acc = set()
    k = t[0]
    if k == 'evar':
        acc.add(('e', t[1]))
    elif k == 'svar':
        acc.add(('s', t[1]))
    elif k in ('imp', 'app'):
        all_vars(t[1], acc)
        all_vars(t[2], acc)
    elif k == 'ex':
        acc.add(('e', t[1]))
        all_vars(t[2], acc)
    elif k == 'mu':
        acc.add(('s', t[1]))
        all_vars(t[2], acc)
    elif k == 'esub':
        acc.add(('e', t[2]))
        all_vars(t[1], acc)
        all_vars(t[3], acc)
    elif k == 'ssub':
        acc.add(('s', t[2]))
        all_vars(t[1], acc)
        all_vars(t[3], acc)
    elif k == 'mv':
        for x in t[2]:
            acc.add(('e', x))
        for x in t[6]:
            acc.add(('e', x))
        for lst in (t[3], t[4], t[5]):
            for x in lst:
                acc.add(('s', x))
    return acc


@lru_cache(maxsize=1 << 16)
def polarity(t, X) -> frozenset:
    """set of polarities {+1,-1} with which svar X occurs free in concrete t"""
    k = t[0]
    if k == 'svar':
        return frozenset([1]) if t[1] == X else frozenset()
    if k in ('evar', 'sym'):
        return frozenset()
    if k == 'imp':
        return frozenset(-p for p in polarity(t[1], X)) | polarity(t[2], X)
    if k == 'app':
        return polarity(t[1], X) | polarity(t[2], X)
    if k == 'ex':
        return polarity(t[2], X)
    if k == 'mu':
        return frozenset() if t[1] == X else polarity(t[2], X)
    raise ValueError(k)


def occurs_only_positive(t, X) -> bool:
    return -1 not in polarity(t, X)


def occurs_only_negative(t, X) -> bool:
    return 1 not in polarity(t, X)


def well_formed_concrete(t) -> bool:
    """every mu body is positive in its binder"""
    k = t[0]
    if k in ('evar', 'svar', 'sym'):
        return True
    if k in ('imp', 'app'):
        return well_formed_concrete(t[1]) and well_formed_concrete(t[2])
    if k == 'ex':
        return well_formed_concrete(t[2])
    if k == 'mu':
        return occurs_only_positive(t[2], t[1]) and well_formed_concrete(t[2])
    return False


def subst(t, sort: str, var: int, plug):
    """textbook substitution on a concrete term: replace the free occurrences of (sort,var) by plug.
    Returns (result, captured) where captured says that a free variable of plug fell under a binder."""
    fvp = fv(plug)
    captured = False

    def go(u):
        nonlocal captured
        k = u[0]
        if k == 'evar':
            return plug if (sort == 'e' and u[1] == var) else u
        if k == 'svar':
            return plug if (sort == 's' and u[1] == var) else u
        if k == 'sym':
            return u
        if k in ('imp', 'app'):
            return (k, go(u[1]), go(u[2]))
        if k in ('ex', 'mu'):
            bs = 'e' if k == 'ex' else 's'
            if bs == sort and u[1] == var:
                return u
            if (sort, var) in fv(u[2]) and (bs, u[1]) in fvp:
                captured = True
            return (k, u[1], go(u[2]))
        raise ValueError(k)

    return go(t), captured


def subst_ca(t, sort: str, var: int, plug, fresh_base: int = 100):
    """capture-avoiding substitution (renames binders that would capture)"""
    fvp = fv(plug)
    counter = [fresh_base]

    def fresh(avoid):
        while True:
            counter[0] += 1
            c = counter[0]
            if ('e', c) not in avoid and ('s', c) not in avoid:
                return c

    def go(u):
        k = u[0]
        if k == 'evar':
            return plug if (sort == 'e' and u[1] == var) else u
        if k == 'svar':
            return plug if (sort == 's' and u[1] == var) else u
        if k == 'sym':
            return u
        if k in ('imp', 'app'):
            return (k, go(u[1]), go(u[2]))
        if k in ('ex', 'mu'):
            bs = 'e' if k == 'ex' else 's'
            if bs == sort and u[1] == var:
                return u
            if (sort, var) not in fv(u[2]):
                return u
            if (bs, u[1]) in fvp:
                nv = fresh(all_vars(u[2]) | fvp | {(sort, var)})
                body, _ = subst(u[2], bs, u[1], ('evar' if bs == 'e' else 'svar', nv))
                return (k, nv, go(body))
            return (k, u[1], go(u[2]))
        raise ValueError(k)

    return go(t)


def alpha_eq(a, b) -> bool:
    def canon(u, env_e, env_s, depth):
        k = u[0]
        if k == 'evar':
            return ('be', env_e[u[1]]) if u[1] in env_e else u
        if k == 'svar':
            return ('bs', env_s[u[1]]) if u[1] in env_s else u
        if k == 'sym':
            return u
        if k in ('imp', 'app'):
            return (k, canon(u[1], env_e, env_s, depth), canon(u[2], env_e, env_s, depth))
        if k == 'ex':
            e2 = dict(env_e)
            e2[u[1]] = depth
            return ('ex', canon(u[2], e2, env_s, depth + 1))
        if k == 'mu':
            s2 = dict(env_s)
            s2[u[1]] = depth
            return ('mu', canon(u[2], env_e, s2, depth + 1))
        raise ValueError(k)

    return canon(a, {}, {}, 0) == canon(b, {}, {}, 0)


def metavars(t, acc=None):
    """list of distinct mv occurrences (full tuples) in t"""
    if acc is None:
        acc = []
    k = t[0]
    if k == 'mv':
        if t not in acc:
            acc.append(t)
    elif k in ('imp', 'app'):
        metavars(t[1], acc)
        metavars(t[2], acc)
    elif k in ('ex', 'mu'):
        metavars(t[2], acc)
    elif k in ('esub', 'ssub'):
        metavars(t[1], acc)
        metavars(t[3], acc)
    return acc


def satisfies(mvt, plug) -> bool | None:
    """ground truth: does the concrete plug meet the constraints of this metavariable occurrence?
    None = cannot decide (application-context holes: no definition in the document)."""
    _, _ident, E, S, P, N, H = mvt
    f = fv(plug)
    if any(('e', x) in f for x in E):
        return False
    if any(('s', X) in f for X in S):
        return False
    if any(not occurs_only_positive(plug, X) for X in P):
        return False
    if any(not occurs_only_negative(plug, X) for X in N):
        return False
    if H:
        # an application context in the hole variable x: [] | C psi | psi C with x not free in psi. The document gives no
        # judgement for holes; these plugs are application contexts under any reading, and only they are used as instances
        if len(H) != 1:
            return None
        return is_app_ctx(plug, H[0])
    return True


def is_app_ctx(t, x) -> bool:
    if t == ('evar', x):
        return True
    if t[0] == 'app':
        l_in, r_in = ('e', x) in fv(t[1]), ('e', x) in fv(t[2])
        if l_in and not r_in:
            return is_app_ctx(t[1], x)
        if r_in and not l_in:
            return is_app_ctx(t[2], x)
    return False


def instantiate_concrete(t, assign: dict, avoid_capture: bool = False):
    """replace every metavariable by its concrete plug and resolve pending substitutions, innermost first.
    Returns (concrete term, captured_flag). With avoid_capture the substitutions rename binders instead."""
    captured = False

    def go(u):
        nonlocal captured
        k = u[0]
        if k in ('evar', 'svar', 'sym'):
            return u
        if k == 'mv':
            return assign[u[1]]
        if k in ('imp', 'app'):
            return (k, go(u[1]), go(u[2]))
        if k in ('ex', 'mu'):
            return (k, u[1], go(u[2]))
        if k in ('esub', 'ssub'):
            h = go(u[1])
            p = go(u[3])
            sort = 'e' if k == 'esub' else 's'
            if avoid_capture:
                return subst_ca(h, sort, u[2], p)
            r, c = subst(h, sort, u[2], p)
            captured = captured or c
            return r
        raise ValueError(k)

    return go(t), captured


def instances(t, pool, limit: int | None = None):
    """all admissible assignments of pool patterns to the metavariables of t.
    yields (assignment dict, concrete instance, captured_flag); undecidable (holes) -> yields nothing, returns."""
    occ = metavars(t)
    ids = sorted({m[1] for m in occ})
    if not ids:
        c, cap = instantiate_concrete(t, {})
        yield {}, c, cap
        return
    n = 0
    for combo in itertools.product(pool, repeat=len(ids)):
        assign = dict(zip(ids, combo))
        ok = True
        for m in occ:
            s = satisfies(m, assign[m[1]])
            if s is None:
                return
            if not s:
                ok = False
                break
        if not ok:
            continue
        c, cap = instantiate_concrete(t, assign)
        yield assign, c, cap
        n += 1
        if limit is not None and n >= limit:
            return


# ------------------------------------------------------------------------------------------------
# meta-level (schematic) substitution and instantiation: the textbook definitions lifted to terms that
# still contain metavariables. Never refuses; `policy` is the normal form for a substitution landing on
# a metavariable that is declared fresh in the substituted variable ('drop_mv': the substitution
# disappears -- the generator's convention; 'wrap': kept pending -- the pinned checker's convention).
# ------------------------------------------------------------------------------------------------

def msubst(t, sort: str, var: int, plug, policy: str = 'drop_mv'):
    k = t[0]
    if k == 'evar':
        return plug if (sort == 'e' and t[1] == var) else t
    if k == 'svar':
        return plug if (sort == 's' and t[1] == var) else t
    if k == 'sym':
        return t
    if k in ('imp', 'app'):
        return (k, msubst(t[1], sort, var, plug, policy), msubst(t[2], sort, var, plug, policy))
    if k in ('ex', 'mu'):
        bs = 'e' if k == 'ex' else 's'
        if bs == sort and t[1] == var:
            return t
        return (k, t[1], msubst(t[2], sort, var, plug, policy))
    if k == 'mv':
        if policy == 'drop_mv' and ((sort == 'e' and var in t[2]) or (sort == 's' and var in t[3])):
            return t
        return ('esub' if sort == 'e' else 'ssub', t, var, plug)
    if k in ('esub', 'ssub'):
        return ('esub' if sort == 'e' else 'ssub', t, var, plug)
    raise ValueError(k)


def minst(t, delta: dict, policy: str = 'drop_mv'):
    """simultaneous metavariable instantiation; pending substitutions are applied to the instantiated head"""
    k = t[0]
    if k in ('evar', 'svar', 'sym'):
        return t
    if k == 'mv':
        return delta.get(t[1], t)
    if k in ('imp', 'app'):
        return (k, minst(t[1], delta, policy), minst(t[2], delta, policy))
    if k in ('ex', 'mu'):
        return (k, t[1], minst(t[2], delta, policy))
    if k in ('esub', 'ssub'):
        h = minst(t[1], delta, policy)
        p = minst(t[3], delta, policy)
        return msubst(h, 'e' if k == 'esub' else 's', t[2], p, policy)
    raise ValueError(k)


def mv_ids(t) -> set:
    return {m[1] for m in metavars(t)}


def meta_fresh_e(t, x) -> bool:
    """judgement 'x is not free in any instance' for meta terms (document's e_fresh), kept here so that
    Python-side checks do not import the machine module for it"""
    from . import refmachine as rm
    return rm.e_fresh(t, x)
