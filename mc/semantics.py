"""E3 -- finite-model semantics of concrete matching-logic patterns (Python reference for E3r).

A model is (n, sym: dict id->bitset, app: list[n*n] of bitsets). Valuations map element variables to
elements and set variables to bitsets."""
from __future__ import annotations

import itertools


class NonMonotone(Exception):
    pass


def eval_term(t, n, sym, app, erho, srho) -> int:
    full = (1 << n) - 1
    k = t[0]
    if k == 'evar':
        return 1 << erho[t[1]]
    if k == 'svar':
        return srho[t[1]]
    if k == 'sym':
        return sym[t[1]]
    if k == 'imp':
        return (full & ~eval_term(t[1], n, sym, app, erho, srho)) | eval_term(t[2], n, sym, app, erho, srho)
    if k == 'app':
        x = eval_term(t[1], n, sym, app, erho, srho)
        y = eval_term(t[2], n, sym, app, erho, srho)
        r = 0
        for i in range(n):
            if x >> i & 1:
                for j in range(n):
                    if y >> j & 1:
                        r |= app[i * n + j]
        return r
    if k == 'ex':
        r = 0
        old = erho.get(t[1])
        for i in range(n):
            erho[t[1]] = i
            r |= eval_term(t[2], n, sym, app, erho, srho)
        if old is None:
            del erho[t[1]]
        else:
            erho[t[1]] = old
        return r
    if k == 'mu':
        old = srho.get(t[1])
        cur = 0
        rounds = 0
        try:
            while True:
                srho[t[1]] = cur
                nxt = eval_term(t[2], n, sym, app, erho, srho)
                if nxt == cur:
                    return cur
                if nxt & cur != cur:
                    raise NonMonotone()
                cur = nxt
                rounds += 1
                if rounds > (1 << n) + 2:
                    raise NonMonotone()
        finally:
            if old is None:
                srho.pop(t[1], None)
            else:
                srho[t[1]] = old
    raise ValueError(k)


def collect(t, ev, sv, sy, flags):
    k = t[0]
    if k == 'evar':
        if t[1] not in ev:
            ev.append(t[1])
    elif k == 'svar':
        if t[1] not in sv:
            sv.append(t[1])
    elif k == 'sym':
        if t[1] not in sy:
            sy.append(t[1])
    elif k == 'imp':
        collect(t[1], ev, sv, sy, flags)
        collect(t[2], ev, sv, sy, flags)
    elif k == 'app':
        flags['app'] = True
        collect(t[1], ev, sv, sy, flags)
        collect(t[2], ev, sv, sy, flags)
    elif k == 'ex':
        if t[1] not in ev:
            ev.append(t[1])
        collect(t[2], ev, sv, sy, flags)
    elif k == 'mu':
        if t[1] not in sv:
            sv.append(t[1])
        collect(t[2], ev, sv, sy, flags)


def valid(t, maxn: int = 2):
    """complete enumeration for carriers 1..maxn (maxn<=2: all application interpretations).
    returns ('VALID',) | ('INVALID', model) | ('NONMONO', model)"""
    ev, sv, sy, flags = [], [], [], {}
    collect(t, ev, sv, sy, flags)
    for n in range(1, maxn + 1):
        nsub = 1 << n
        full = nsub - 1
        if flags.get('app'):
            assert n <= 2, 'python reference enumerates all application tables only for carrier <= 2'
            apps = itertools.product(range(nsub), repeat=n * n)
        else:
            apps = [tuple([0] * (n * n))]
        for app in apps:
            for symv in itertools.product(range(nsub), repeat=len(sy)):
                sym = dict(zip(sy, symv))
                for evals in itertools.product(range(n), repeat=len(ev)):
                    for svals in itertools.product(range(nsub), repeat=len(sv)):
                        erho = dict(zip(ev, evals))
                        srho = dict(zip(sv, svals))
                        try:
                            v = eval_term(t, n, sym, app, erho, srho)
                        except NonMonotone:
                            return ('NONMONO', (n, sym, app, erho, srho))
                        if v != full:
                            return ('INVALID', (n, sym, app, dict(zip(ev, evals)), dict(zip(sv, svals))))
    return ('VALID',)
