"""C09 -- the tautology prover is a correct decision procedure.

Bounded-exhaustive:
  (1) all formulas with <=4/5 leaves over {phi0,phi1,phi2,bot,->}     -> prove_tautology vs truth table
  (2) all formulas of <=3/4 connectives over the notations ~,/\\,\\/,T,<-> applied to those leaves
  (3) every ordered list of <=3/4 clauses over 3 variables (and <=3 over 4) -> start_resolution_algorithm
  (4) every normal-form stage on the stage inputs produced by (1)-(2): shape, truth-table equivalence, both proofs
Every returned proof is replayed on a StatefulInterpreter (conclusion-only interpreters would miss stack
discipline); a stride of them is serialised and run through the real checker."""
from __future__ import annotations

import itertools
import json
import sys
import time

from . import common, par, pyrun
from . import refmachine as rm

PROP = 'C09'
NV = 3


# ------------------------------------------------------------------------------------------------
# truth tables on expanded terms
# ------------------------------------------------------------------------------------------------

def tt(t, val) -> bool:
    k = t[0]
    if k == 'mv':
        return val[t[1]]
    if k == 'imp':
        return (not tt(t[1], val)) or tt(t[2], val)
    if k == 'mu' and t == rm.BOT:
        return False
    raise ValueError(f'not propositional: {rm.show(t)}')


def table(t, nv=NV):
    return tuple(tt(t, v) for v in itertools.product((False, True), repeat=nv))


def classify(t, nv=NV):
    tb = table(t, nv)
    if all(tb):
        return 'taut'
    if not any(tb):
        return 'unsat'
    return 'contingent'


# ------------------------------------------------------------------------------------------------
# formula universes (repo patterns)
# ------------------------------------------------------------------------------------------------

def formulas_imp(max_leaves: int):
    from . import bridge
    P = bridge.P
    leaves = [P.MetaVar(0), P.MetaVar(1), P.MetaVar(2), P.bot()]
    by = {1: list(leaves)}
    for n in range(2, max_leaves + 1):
        cur = []
        for k in range(1, n):
            for a in by[k]:
                for b in by[n - k]:
                    cur.append(P.Implies(a, b))
        by[n] = cur
    out = []
    for n in range(1, max_leaves + 1):
        out += by[n]
    return out


def formulas_notation(max_conn: int, equiv_levels: int = 2):
    from . import bridge
    P = bridge.P
    leaves = [P.MetaVar(0), P.MetaVar(1), P.bot(), P.top()]
    by = {0: list(leaves)}
    for n in range(1, max_conn + 1):
        cur = [P.neg(a) for a in by[n - 1]]
        for k in range(0, n):
            for a in by[k]:
                for b in by[n - 1 - k]:
                    cur.append(P._and(a, b))
                    cur.append(P._or(a, b))
                    if n <= equiv_levels:
                        cur.append(P.equiv(a, b))
                        cur.append(P.Implies(a, b))
        by[n] = cur
    out = []
    for n in range(0, max_conn + 1):
        out += by[n]
    return out


# ------------------------------------------------------------------------------------------------
# replay of a returned proof
# ------------------------------------------------------------------------------------------------

def replay_thunk(taut, pf, conc, through_checker: bool):
    """run the thunk on a StatefulInterpreter inside a module that declares the prover's axioms;
    returns None or an error string"""
    from . import bridge  # noqa: F401
    from proof_generation.claim import Claim
    from proof_generation.interpreter import ExecutionPhase
    from proof_generation.stateful_interpreter import StatefulInterpreter
    m = pyrun.module_for(pf, axioms=taut.get_axioms(), claim=conc)
    try:
        it = StatefulInterpreter(ExecutionPhase.Gamma, [Claim(conc)])
        m.execute_full(it)
        if it.claims:
            return 'claims left after replay'
    except Exception as ex:  # noqa: BLE001
        return f'replay on StatefulInterpreter raised {type(ex).__name__}: {str(ex)[:200]}'
    if through_checker:
        for opt in (False, True):
            try:
                files = pyrun.serialize_real(m, opt)
            except Exception as ex:  # noqa: BLE001
                return f'serialize(optimize={opt}) raised {type(ex).__name__}: {str(ex)[:200]}'
            g, c, p = pyrun.triple(files)
            if not par.harness().verify(g, c, p):
                return f'checker rejects the serialised proof (optimize={opt})'
            if len(p) > 2500:
                # the optimiser's analysis pass is quadratic in the proof size; C02 covers it systematically
                break
    return None


# ------------------------------------------------------------------------------------------------
# (1)+(2)+(4)
# ------------------------------------------------------------------------------------------------

def cf_shape(cf, allowed, T):
    """check the shape of a ConjForm tree: allowed node classes; negation only where permitted"""
    name = type(cf).__name__
    if name not in allowed:
        return f'unexpected node {name}'
    if name in ('CFOr', 'CFAnd'):
        if cf.negated and not allowed[name]:
            return f'negated {name}'
        return cf_shape(cf.left, allowed, T) or cf_shape(cf.right, allowed, T)
    return None


def is_cnf(cf):
    name = type(cf).__name__
    if name == 'CFAnd':
        return is_cnf(cf.left) and is_cnf(cf.right) and not cf.negated
    return is_disj(cf)


def is_disj(cf):
    name = type(cf).__name__
    if name == 'CFOr':
        return (not cf.negated) and is_disj(cf.left) and is_disj(cf.right)
    return name == 'CFVar'


def prover_chunk(args):
    kind, bound, rows, stride = args
    from . import bridge
    P = bridge.P
    import proof_generation.tautology as TT
    F = formulas_imp(bound) if kind == 'imp' else formulas_notation(*bound)
    taut = TT.Tautology()
    out = {'evals': 0, 'taut': 0, 'unsat': 0, 'contingent': 0, 'replayed': 0, 'checker': 0, 'stage_evals': 0,
           'multi_clause': 0, 'viol': []}

    def bad(stage, pat, what):
        out['viol'].append(({'stage': stage, 'pattern': repr(pat)}, f'{stage} on {pat}: {what}'))

    for i in rows:
        pat = F[i]
        ep = bridge.expand(pat)
        cls = classify(ep)
        out['evals'] += 1
        out[cls] += 1
        try:
            res = taut.prove_tautology(pat)
        except Exception as ex:  # noqa: BLE001
            bad('prove_tautology', pat, f'raised {type(ex).__name__}: {str(ex)[:200]}')
            continue
        want = {'taut': True, 'unsat': False, 'contingent': None}[cls]
        got = None if res is None else res[0]
        if got != want:
            bad('prove_tautology', pat, f'answered {got} but the pattern is {cls}')
            continue
        if res is not None:
            flag, pf = res
            conc_want = ep if flag else ('imp', ep, rm.BOT)
            if bridge.expand(pf.conc) != conc_want:
                bad('prove_tautology', pat, f'proof concludes {pf.conc}')
                continue
            err = replay_thunk(taut, pf, pf.conc, through_checker=(i % stride == 0))
            out['replayed'] += 1
            if i % stride == 0:
                out['checker'] += 1
            if err:
                bad('prove_tautology/replay', pat, err)
        # (4) stages, on neg(pat) exactly as the prover drives them
        try:
            npat = P.neg(pat)
            enp = bridge.expand(npat)
            cf, pf1, pf2 = taut.to_conj_form(npat)
            out['stage_evals'] += 1
            cfp = TT.conj_to_pattern(cf)
            ecf = bridge.expand(cfp)
            if type(cf).__name__ == 'CFBot':
                # pf1 proves npat (negated=True: top) or neg(npat)
                wantc = enp if cf.negated else ('imp', enp, rm.BOT)
                if bridge.expand(pf1.conc) != wantc:
                    bad('to_conj_form', npat, f'degenerate result {cfp} with proof of {pf1.conc}')
                if table(enp) != table(ecf):
                    bad('to_conj_form', npat, f'{cfp} is not equivalent')
                continue
            sh = cf_shape(cf, {'CFOr': True, 'CFVar': True}, TT)
            if sh:
                bad('to_conj_form', npat, f'shape: {sh} in {cfp}')
            if table(enp) != table(ecf):
                bad('to_conj_form', npat, f'{cfp} is not equivalent')
            if bridge.expand(pf1.conc) != ('imp', enp, ecf) or pf2 is None or bridge.expand(pf2.conc) != ('imp', ecf, enp):
                bad('to_conj_form', npat, f'proofs conclude {pf1.conc} / {pf2.conc if pf2 else None}')
            do_replay = (i % stride == 0)
            for nm, pfx in ((('pf1', pf1), ('pf2', pf2)) if do_replay else ()):
                err = replay_thunk(taut, pfx, pfx.conc, False)
                if err:
                    bad('to_conj_form/replay', npat, f'{nm}: {err}')
            # propag_neg mutates its argument: remember the input pattern first
            cf2, q1, q2 = taut.propag_neg(cf)
            out['stage_evals'] += 1
            cf2p = TT.conj_to_pattern(cf2)
            e2 = bridge.expand(cf2p)
            sh = cf_shape(cf2, {'CFOr': False, 'CFAnd': False, 'CFVar': True}, TT)
            if sh:
                bad('propag_neg', cfp, f'shape: {sh} in {cf2p}')
            if table(e2) != table(ecf):
                bad('propag_neg', cfp, f'{cf2p} is not equivalent')
            if bridge.expand(q1.conc) != ('imp', ecf, e2) or bridge.expand(q2.conc) != ('imp', e2, ecf):
                bad('propag_neg', cfp, f'proofs conclude {q1.conc} / {q2.conc}')
            for nm, pfx in ((('pf1', q1), ('pf2', q2)) if do_replay else ()):
                err = replay_thunk(taut, pfx, pfx.conc, False)
                if err:
                    bad('propag_neg/replay', cfp, f'{nm}: {err}')
            cf3, r1, r2 = taut.to_cnf(cf2)
            out['stage_evals'] += 1
            cf3p = TT.conj_to_pattern(cf3)
            e3 = bridge.expand(cf3p)
            if not is_cnf(cf3):
                bad('to_cnf', cf2p, f'result {cf3p} is not in CNF')
            if table(e3) != table(e2):
                bad('to_cnf', cf2p, f'{cf3p} is not equivalent')
            if bridge.expand(r1.conc) != ('imp', e2, e3) or bridge.expand(r2.conc) != ('imp', e3, e2):
                bad('to_cnf', cf2p, f'proofs conclude {r1.conc} / {r2.conc}')
            for nm, pfx in ((('pf1', r1), ('pf2', r2)) if do_replay else ()):
                err = replay_thunk(taut, pfx, pfx.conc, False)
                if err:
                    bad('to_cnf/replay', cf2p, f'{nm}: {err}')
            cls_, s1, s2 = taut.to_clauses(cf3)
            out['stage_evals'] += 1
            if len(cls_) > 1:
                out['multi_clause'] += 1
            cp = TT.clause_conjunctionto_pattern(cls_)
            e4 = bridge.expand(cp)
            if table(e4) != table(e3):
                bad('to_clauses', cf3p, f'{cls_} is not equivalent')
            if bridge.expand(s1.conc) != ('imp', e3, e4) or bridge.expand(s2.conc) != ('imp', e4, e3):
                bad('to_clauses', cf3p, f'proofs conclude {s1.conc} / {s2.conc}')
            for nm, pfx in ((('pf1', s1), ('pf2', s2)) if do_replay else ()):
                err = replay_thunk(taut, pfx, pfx.conc, False)
                if err:
                    bad('to_clauses/replay', cf3p, f'{nm}: {err}')
        except Exception as ex:  # noqa: BLE001
            bad('stages', pat, f'raised {type(ex).__name__}: {str(ex)[:200]}')
    return out


# ------------------------------------------------------------------------------------------------
# (3) clause lists
# ------------------------------------------------------------------------------------------------

def clause_universe(nvars: int, maxlen_clause: int):
    lits = [x for v in range(1, nvars + 1) for x in (v, -v)]
    out = []
    for n in range(1, maxlen_clause + 1):
        for c in itertools.product(lits, repeat=n):
            out.append(list(c))
    return out


def clause_lists(nvars, max_clauses, maxlen_clause, unique_sets=True):
    """ordered lists of clauses. To keep the space finite and meaningful: clauses as literal sequences
    (order and repetition inside a clause matter to the proof construction) for short lists, and canonical
    (sorted, duplicate-free) clauses in every ORDER for longer lists."""
    U = clause_universe(nvars, maxlen_clause)
    if unique_sets:
        seen = set()
        V = []
        for c in U:
            k = frozenset(c)
            if k not in seen and len(k) == len(c):
                seen.add(k)
                V.append(sorted(c, key=lambda x: (abs(x), x)))
        U = V
    for n in range(0, max_clauses + 1):
        for t in itertools.permutations(range(len(U)), n):
            yield [list(U[i]) for i in t]


def clause_tt(clauses, nv):
    def ev(v):
        return all(any((v[abs(x) - 1] if x > 0 else not v[abs(x) - 1]) for x in cl) for cl in clauses)
    vals = [ev(v) for v in itertools.product((False, True), repeat=nv)]
    return 'taut' if all(vals) else 'unsat' if not any(vals) else 'contingent'


def clause_chunk(args):
    lists, nv, stride = args[:3]
    checker = args[3] if len(args) > 3 else True
    from . import bridge
    import proof_generation.tautology as TT
    taut = TT.Tautology()
    out = {'evals': 0, 'taut': 0, 'unsat': 0, 'contingent': 0, 'replayed': 0, 'viol': []}
    for n, cl in enumerate(lists):
        out['evals'] += 1
        cls = clause_tt(cl, nv)
        out[cls] += 1
        try:
            res = taut.start_resolution_algorithm([list(c) for c in cl])
        except Exception as ex:  # noqa: BLE001
            out['viol'].append(({'stage': 'resolution', 'clauses': cl}, f'start_resolution_algorithm({cl}) raised {type(ex).__name__}: {str(ex)[:200]}'))
            continue
        want = {'taut': True, 'unsat': False, 'contingent': None}[cls]
        got = None if res is None else res[0]
        if got != want:
            out['viol'].append(({'stage': 'resolution', 'clauses': cl},
                                f'start_resolution_algorithm({cl}) answered {got} but the clause set is {cls}'))
            continue
        if res is not None:
            flag, pf = res
            term = bridge.expand(TT.clause_conjunctionto_pattern([list(c) for c in cl]))
            wantc = term if flag else ('imp', term, rm.BOT)
            if bridge.expand(pf.conc) != wantc:
                out['viol'].append(({'stage': 'resolution', 'clauses': cl}, f'proof for {cl} concludes {pf.conc}'))
                continue
            if n % stride == 0:
                err = replay_thunk(taut, pf, pf.conc, through_checker=(checker and n % (stride * 8) == 0))
                out['replayed'] += 1
                if err:
                    out['viol'].append(({'stage': 'resolution/replay', 'clauses': cl}, f'{cl}: {err}'))
    return out


def resolution_alg_chunk(args):
    """resolution_algorithm itself (hint construction): returns True iff the set list is unsatisfiable"""
    lists, nv = args
    from . import bridge  # noqa: F401
    import proof_generation.tautology as TT
    taut = TT.Tautology()
    out = {'evals': 0, 'unsat': 0, 'viol': []}
    for cl in lists:
        sets = [frozenset(c) for c in cl]
        if any(taut.is_trivial_clause(s) for s in sets) or len(set(sets)) != len(sets):
            continue
        out['evals'] += 1
        hint = {s: i for i, s in enumerate(sets)}
        try:
            r = taut.resolution_algorithm(hint, list(hint.keys()))
        except Exception as ex:  # noqa: BLE001
            out['viol'].append(({'stage': 'resolution_algorithm', 'clauses': cl}, f'raised {type(ex).__name__}'))
            continue
        unsat = clause_tt(cl, nv) == 'unsat'
        if unsat:
            out['unsat'] += 1
        if r != unsat:
            out['viol'].append(({'stage': 'resolution_algorithm', 'clauses': cl},
                                f'resolution_algorithm on {cl} returns {r} but the set is {"un" if unsat else ""}satisfiable'))
    return out


# ------------------------------------------------------------------------------------------------
# (4') stages driven directly: conjunctive-form trees and clauses that the formula grammars reach only at larger sizes
# ------------------------------------------------------------------------------------------------

def tree_shapes(n):
    """binary tree shapes with n leaves: 'L' or (left, right)"""
    if n == 1:
        return ['L']
    out = []
    for k in range(1, n):
        for a in tree_shapes(k):
            for b in tree_shapes(n - k):
                out.append((a, b))
    return out


LEAF_LABELLINGS = [
    lambda k: (k % 3, k % 2 == 1),        # distinct neighbours, alternating signs
    lambda k: (0 if k < 4 else 1, False),  # the same literal many times, then another one
    lambda k: (k % 2, k >= 2),
]


def stage_specs(max_leaves_cnf: int, max_leaves_neg: int):
    """('cnf', shape, ops bits, labelling) : And/Or trees, negation on leaves only -> to_cnf, to_clauses
       ('neg', shape, flag bits, labelling): Or-only trees, negation flags on any node -> propag_neg, to_cnf, to_clauses"""
    out = []
    for n in range(1, max_leaves_cnf + 1):
        for sh in tree_shapes(n):
            for ops in range(2 ** (n - 1)):
                for lab in range(len(LEAF_LABELLINGS)):
                    out.append(('cnf', sh, ops, lab))
    for n in range(1, max_leaves_neg + 1):
        for sh in tree_shapes(n):
            for flags in range(2 ** (2 * n - 1)):
                out.append(('neg', sh, flags, 0))
    return out


def build_cf(spec, TT):
    kind, sh, bits, lab = spec
    leafc = [0]
    nodec = [0]

    def go(t):
        if t == 'L':
            k = leafc[0]
            leafc[0] += 1
            v, ng = LEAF_LABELLINGS[lab](k)
            cf = TT.CFVar(v)
            if kind == 'cnf':
                cf.negated = ng
            else:
                cf.negated = bool((bits >> nodec[0]) & 1)
                nodec[0] += 1
            return cf
        i = nodec[0]
        nodec[0] += 1
        a, b = go(t[0]), go(t[1])
        if kind == 'cnf':
            return (TT.CFAnd if (bits >> i) & 1 else TT.CFOr)(a, b)
        cf = TT.CFOr(a, b)
        cf.negated = bool((bits >> i) & 1)
        return cf
    return go(sh)


def stage_chunk(args):
    specs, stride = args[:2]
    slow_replays = len(args) > 2 and args[2]
    from . import bridge
    P = bridge.P
    import proof_generation.tautology as TT
    taut = TT.Tautology()
    out = {'evals': 0, 'stage_evals': 0, 'multi_clause': 0, 'replayed': 0, 'viol': []}

    def bad(stage, spec, what):
        out['viol'].append(({'stage': stage, 'tree': list(map(str, spec))}, f'{stage} on tree {spec}: {what}'))

    def proofs(stage, spec, src, dst, p1, p2, do_replay):
        if bridge.expand(p1.conc) != ('imp', src, dst) or bridge.expand(p2.conc) != ('imp', dst, src):
            bad(stage, spec, f'proofs conclude {p1.conc} / {p2.conc}')
            return
        if do_replay:
            for nm, pfx in (('pf1', p1), ('pf2', p2)):
                err = replay_thunk(taut, pfx, pfx.conc, False)
                out['replayed'] += 1
                if err:
                    bad(stage + '/replay', spec, f'{nm}: {err}')

    for n, spec in specs:            # n: index of the input in the whole family (replays are chosen by it, not per chunk)
        out['evals'] += 1
        do_replay = (n % stride == 0)
        try:
            if spec[0] == 'clause':
                _, cl, res = spec
                cl = list(cl)
                new, pf = taut.simplify_clause(list(cl), res)
                out['stage_evals'] += 1
                want = ([res] + [x for x in cl if x != res]) if res in cl else cl
                if list(new) != want:
                    bad('simplify_clause', spec, f'returns clause {new}, expected {want}')
                wantc = bridge.expand(P.equiv(TT.clause_to_pattern(cl), TT.clause_to_pattern(want)))
                if bridge.expand(pf.conc) != wantc:
                    bad('simplify_clause', spec, f'proof concludes {pf.conc}')
                elif do_replay and (len(cl) <= 3 or (slow_replays and len(cl) == 4 and n % (stride * 16) == 0)):
                    # executing these proofs is slow (seconds for a five-literal clause): long clauses on a sparser stride
                    err = replay_thunk(taut, pf, pf.conc, False)
                    out['replayed'] += 1
                    if err:
                        bad('simplify_clause/replay', spec, err)
                continue
            if spec[0] == 'mtf':
                # the documented contract of *_move_to_front: op-list <-> (selected terms, in order) followed by the others
                _, opname, nterms, pos = spec
                terms = [P.MetaVar(i) for i in range(nterms)]
                op = P._or if opname == 'or' else P._and
                pf = (taut.or_move_to_front if opname == 'or' else taut.and_move_to_front)(list(pos), list(terms))
                out['stage_evals'] += 1
                moved = [terms[i] for i in pos] + [t for i, t in enumerate(terms) if i not in pos]
                wantc = bridge.expand(P.equiv(TT.foldr_op(op, terms), TT.foldr_op(op, moved)))
                if bridge.expand(pf.conc) != wantc:
                    bad(opname + '_move_to_front', spec, f'proof concludes {pf.conc}')
                elif do_replay and nterms <= 4:
                    err = replay_thunk(taut, pf, pf.conc, False)
                    out['replayed'] += 1
                    if err:
                        bad(opname + '_move_to_front/replay', spec, err)
                continue
            if spec[0] == 'dups':
                _, k, rest = spec
                terms = [P.MetaVar(0)] * (k + 1) + [P.MetaVar(i) if i >= 0 else P.neg(P.MetaVar(-i)) for i in rest]
                pf = taut.reduce_n_or_duplicates_at_front(k, list(terms))
                out['stage_evals'] += 1
                wantc = bridge.expand(P.equiv(TT.foldr_op(P._or, terms), TT.foldr_op(P._or, terms[k:])))
                if bridge.expand(pf.conc) != wantc:
                    bad('reduce_n_or_duplicates_at_front', spec, f'proof concludes {pf.conc}')
                elif do_replay:
                    err = replay_thunk(taut, pf, pf.conc, False)
                    out['replayed'] += 1
                    if err:
                        bad('reduce_n_or_duplicates_at_front/replay', spec, err)
                continue
            cf = build_cf(spec, TT)
            e1 = bridge.expand(TT.conj_to_pattern(cf))
            if spec[0] == 'neg':
                cf2, q1, q2 = taut.propag_neg(cf)
                out['stage_evals'] += 1
                e2 = bridge.expand(TT.conj_to_pattern(cf2))
                sh = cf_shape(cf2, {'CFOr': False, 'CFAnd': False, 'CFVar': True}, TT)
                if sh:
                    bad('propag_neg', spec, f'shape: {sh}')
                if table(e2) != table(e1):
                    bad('propag_neg', spec, 'result is not equivalent')
                proofs('propag_neg', spec, e1, e2, q1, q2, do_replay)
            else:
                cf2, e2 = cf, e1
            cf3, r1, r2 = taut.to_cnf(cf2)
            out['stage_evals'] += 1
            e3 = bridge.expand(TT.conj_to_pattern(cf3))
            if not is_cnf(cf3):
                bad('to_cnf', spec, f'result {TT.conj_to_pattern(cf3)} is not in CNF')
            if table(e3) != table(e2):
                bad('to_cnf', spec, 'result is not equivalent')
            proofs('to_cnf', spec, e2, e3, r1, r2, do_replay)
            cls_, s1, s2 = taut.to_clauses(cf3)
            out['stage_evals'] += 1
            if len(cls_) > 1:
                out['multi_clause'] += 1
            e4 = bridge.expand(TT.clause_conjunctionto_pattern(cls_))
            if table(e4) != table(e3):
                bad('to_clauses', spec, f'{cls_} is not equivalent')
            proofs('to_clauses', spec, e3, e4, s1, s2, do_replay)
        except Exception as ex:  # noqa: BLE001
            bad('stages', spec, f'raised {type(ex).__name__}: {str(ex)[:200]}')
    return out


def direct_specs(thorough: bool):
    specs = stage_specs(5 if thorough else 4, 4 if thorough else 3)
    if not thorough:
        # the five-leaf disjunctions and five-leaf CNF trees with one conjunction at the root
        specs += [('cnf', sh, ops, lab) for sh in tree_shapes(5) for ops in (0, 1, 14, 15) for lab in (0, 1)]
    # long conjunctions / disjunctions in every association (the re-association loops run once per clause / literal)
    specs += [('cnf', sh, ops, 0) for n in ((6, 7) if thorough else (6,)) for sh in tree_shapes(n) for ops in (0, 2 ** (n - 1) - 1)]
    lits = (1, -1, 2, 3)
    maxlen = 6 if thorough else 5
    for n in range(1, maxlen + 1):
        for cl in itertools.product(lits, repeat=n):
            if n >= 5 and len(set(cl)) > 2:
                continue       # long clauses: at most two distinct literals (many copies)
            for res in (1, -1, 2):
                specs.append(('clause', cl, res))
    for k in range(0, 6 if thorough else 5):
        for rest in ((), (1,), (1, 2), (-1,), (-1, 1, 2), (0,), (0, 0), (0, 1)):
            specs.append(('dups', k, rest))
    for opname in ('or', 'and'):
        for nterms in range(2, (8 if thorough else 6)):
            for r in range(1, nterms + 1):
                for pos in itertools.combinations(range(nterms), r):
                    specs.append(('mtf', opname, nterms, pos))
    return specs


def dispatch(item):
    _, fn, arg = item
    t0 = time.time()
    out = globals()[fn](arg)
    return out, time.time() - t0


def merge(chk, res, prefix, agg):
    for out in res:
        for k, v in out.items():
            if k == 'viol':
                for sig, what in v:
                    chk.violation(sig, sig, what)
            else:
                agg[prefix + k] = agg.get(prefix + k, 0) + v


def replay(path: str) -> int:
    v = json.loads(open(path).read())
    print(json.dumps(v['signature'], indent=1)[:2000])
    print(v.get('what'))
    sig = v['signature']
    if 'tree' in sig:
        import ast
        spec = tuple(ast.literal_eval(x) if x[:1] in '(-0123456789' else x for x in sig['tree'])
        out = stage_chunk(([(0, spec)], 1))
        for s, w in out['viol']:
            print('still failing:', w)
        return 1 if out['viol'] else 0
    if sig['stage'].startswith('resolution'):
        out = clause_chunk(([sig['clauses']], 4, 1))
        for s, w in out['viol']:
            print('still failing:', w)
        return 1 if out['viol'] else 0
    return 1


def main(argv=None) -> int:
    argv = argv or []
    if argv and argv[0] == '--replay':
        return replay(argv[1])
    chk = common.Check(PROP, 'exploration')
    thorough = chk.tier == 'thorough'
    common.build_harness()
    agg: dict = {}
    n = common.ncpu() * 6
    work = []          # (prefix, function name, argument): one queue for all families, the slow ones first

    def family(prefix, fn, items):
        for it in items:
            work.append((prefix, fn.__name__, it))

    # fat clauses: one literal many times beside another one, resolved against unit clauses
    # (executing these proofs takes 10-150 s each; the direct stage family covers the same helper functions
    #  cheaply, this family covers them inside the algorithm)
    fat = [[1] * 3 + [2], [-1] * 3 + [2]]
    if thorough:
        fat += [[1] * 4 + [2], [1] * 3 + [2, 2], [1] * 5 + [2], [1, 2, 1, 1], [2, 1, 1, 1]]
    Lf = []
    for c in fat:
        a = c[0] if abs(c[0]) == 1 else c[1]
        perms = list(itertools.permutations([c, [-a], [-2]]))
        for perm in (perms if thorough else (perms[0], perms[-1])):
            Lf.append([list(x) for x in perm])
        Lf.append([list(c), [-a]])
    family('clf_', clause_chunk, [([l], 3, 1, thorough) for l in Lf])
    leaves = 5 if thorough else 4
    F = formulas_imp(leaves)
    stride = 16 if thorough else 8
    family('imp_', prover_chunk, [('imp', leaves, ch, stride) for ch in par.chunks(list(range(len(F))), n)])
    conn = 3 if thorough else 2
    eqlv = 2 if thorough else 1
    G = formulas_notation(conn, eqlv)
    family('not_', prover_chunk, [('not', (conn, eqlv), ch, stride) for ch in par.chunks(list(range(len(G))), n)])
    # literal sequences with repetition / arbitrary order inside the clause (proof construction paths)
    Lr = list(clause_lists(2, 2, 3 if thorough else 2, unique_sets=False))
    if not thorough:
        Lr += [[c] for c in clause_universe(2, 3) if len(c) == 3]
    family('clr_', clause_chunk, [(ch, 3, 10) for ch in par.chunks(Lr, n)])
    D = direct_specs(thorough)
    family('dir_', stage_chunk, [(ch, 12 if not thorough else 8, thorough) for ch in par.chunks(list(enumerate(D)), n)])
    # clause lists: all orders
    L3 = list(clause_lists(3, 3, 2 if not thorough else 3))
    if thorough:
        L3 += [l for l in clause_lists(3, 4, 2) if len(l) == 4]
    family('cl3_', clause_chunk, [(ch, 3, 40) for ch in par.chunks(L3, n)])
    family('alg3_', resolution_alg_chunk, [(ch, 3) for ch in par.chunks(L3, n)])
    # all-trivial clause lists (every clause contains x and ~x): ordered selections of 4 and 5
    triv = [[1, -1], [2, -2], [3, -3], [-1, 1], [-2, 2], [1, 2, -1], [3, -2, 2]]
    Lt = [list(t) for k in (4, 5) for t in itertools.permutations(triv, k)] if thorough else \
        [list(t) for t in itertools.permutations(triv[:6], 4)] + [list(t) for t in itertools.permutations(triv[:5], 5)]
    family('clt_', clause_chunk, [(ch, 3, 20) for ch in par.chunks(Lt, n)])
    # four clauses over two variables, every order (a clause re-derived from its own descendants; index-0 effects)
    L24 = [l for l in clause_lists(2, 4, 2) if len(l) == 4]
    family('c24_', clause_chunk, [(ch, 3, 60) for ch in par.chunks(L24, n)])
    family('a24_', resolution_alg_chunk, [(ch, 3) for ch in par.chunks(L24, n)])
    # every unsatisfiable list over two variables with a common literal added to each clause, refuted by its negation:
    # resolution steps where both parents keep literals and derived clauses repeat the common literal
    base = [l for l in clause_lists(2, 3, 2) if l and clause_tt(l, 2) == 'unsat']
    if not thorough:
        # quick tier: one representative per set of clauses (the orders are covered on the unlifted lists above)
        seen_sets, reps = set(), []
        for l in base:
            k = tuple(sorted(map(tuple, l)))
            if k not in seen_sets:
                seen_sets.add(k)
                reps.append(l)
        base = reps
    Llift = []
    for l in base:
        up = [[(abs(x) + 1) * (1 if x > 0 else -1) for x in c] for c in l]
        Llift.append([c + [1] for c in up] + [[-1]])
        Llift.append([[-1]] + [[1] + c for c in up])
        if thorough:
            Llift.append([c + [1] for c in up[:1]] + [[-1]] + [[1] + c for c in up[1:]])
    family('lift_', clause_chunk, [([l], 3, 1, False) for l in Llift])
    # two clauses of three literals with a repeated literal, and a unit clause
    seq3 = [list(t) for t in itertools.product((1, -1, 2), repeat=3)]
    if not thorough:
        seq3 = [t for t in seq3 if len(set(t)) == 2 and 2 in t]
    Ldup = [[a, b, [u]] for a in seq3 for b in seq3 for u in ((-2, 2) if thorough else (-2,))]
    if thorough:
        # (each of these takes tens of seconds to build: clauses of three literals with repetitions)
        family('dup3_', clause_chunk, [(ch, 3, 200) for ch in par.chunks(Ldup, n * 2)])
    else:
        Ldup = []
    L4 = [l for l in clause_lists(4, 3 if thorough else 2, 2)]
    family('cl4_', clause_chunk, [(ch, 4, 40) for ch in par.chunks(L4, n)])
    family('alg4_', resolution_alg_chunk, [(ch, 4) for ch in par.chunks(L4, n)])
    for (prefix, _, _), (out, secs) in zip(work, par.pmap(dispatch, work)):
        merge(chk, [out], prefix, agg)
        agg[prefix + 'cpu_s'] = round(agg.get(prefix + 'cpu_s', 0) + secs, 1)
    pyrun.cleanup()
    chk.set('evaluations', sum(v for k, v in agg.items() if k.endswith('_evals')))
    chk.set('distinct_nontrivial', sum(v for k, v in agg.items() if k.endswith('_taut') or k.endswith('_unsat')) + agg.get('imp_multi_clause', 0))
    chk.set('rule', 'every formula / clause list of the bounded grammars (each distinct by construction); non-trivial = the input is a '
                    'tautology or unsatisfiable (the prover must produce and we replay a proof) or its CNF has several clauses')
    chk.set('exhaustive', True)
    chk.set('detail', agg)
    chk.set('bounds', {'imp_leaves': leaves, 'imp_formulas': len(F), 'notation_connectives': conn, 'notation_formulas': len(G),
                       'clause_lists_3vars': len(L3), 'four_clause_lists_2vars': len(L24), 'lifted_lists': len(Llift), 'repeated_literal_lists': len(Ldup), 'fat_clause_lists': len(Lf), 'direct_stage_inputs': len(D), 'clause_seq_lists': len(Lr), 'clause_lists_4vars': len(L4)})
    chk.sample({'formula': str(F[len(F) // 2])})
    chk.sample({'notation_formula': str(G[len(G) // 2])})
    chk.sample({'clause_list': L3[len(L3) // 2]})
    chk.assume('oracle: truth tables over phi0..phi2 (phi3 for the 4-variable clause lists)')
    return chk.finish()


if __name__ == '__main__':
    sys.exit(main(sys.argv[1:]))
