"""C09 -- the tautology prover is a correct decision procedure.

Bounded-exhaustive:
  (1) all formulas with <=4/5 leaves over {phi0,phi1,phi2,bot,->}     -> prove_tautology vs truth table
  (2) all formulas of <=3/4 connectives over the notations ~,/\\,\\/,T,<-> applied to those leaves
  (3) every ordered list of <=3/4 clauses over 3 variables (and <=3 over 4) -> start_resolution_algorithm
  (4) every normal-form stage on the stage inputs produced by (1)-(2): shape, truth-table equivalence, both proofs
Every returned proof is replayed on a StatefulInterpreter (conclusion-only interpreters would miss stack
discipline); a stride of them is serialised and run through the real checker."""
from __future__ import annotations

import itertools
import json
import sys

from . import common, par, pyrun
from . import refmachine as rm

PROP = 'C09'
NV = 3


# ------------------------------------------------------------------------------------------------
# truth tables on expanded terms
# ------------------------------------------------------------------------------------------------

def tt(t, val) -> bool:
    k = t[0]
    if k == 'mv':
        return val[t[1]]
    if k == 'imp':
        return (not tt(t[1], val)) or tt(t[2], val)
    if k == 'mu' and t == rm.BOT:
        return False
    raise ValueError(f'not propositional: {rm.show(t)}')


def table(t, nv=NV):
    return tuple(tt(t, v) for v in itertools.product((False, True), repeat=nv))


def classify(t, nv=NV):
    tb = table(t, nv)
    if all(tb):
        return 'taut'
    if not any(tb):
        return 'unsat'
    return 'contingent'


# ------------------------------------------------------------------------------------------------
# formula universes (repo patterns)
# ------------------------------------------------------------------------------------------------

def formulas_imp(max_leaves: int):
    from . import bridge
    P = bridge.P
    leaves = [P.MetaVar(0), P.MetaVar(1), P.MetaVar(2), P.bot()]
    by = {1: list(leaves)}
    for n in range(2, max_leaves + 1):
        cur = []
        for k in range(1, n):
            for a in by[k]:
                for b in by[n - k]:
                    cur.append(P.Implies(a, b))
        by[n] = cur
    out = []
    for n in range(1, max_leaves + 1):
        out += by[n]
    return out


def formulas_notation(max_conn: int, equiv_levels: int = 2):
    from . import bridge
    P = bridge.P
    leaves = [P.MetaVar(0), P.MetaVar(1), P.bot(), P.top()]
    by = {0: list(leaves)}
    for n in range(1, max_conn + 1):
        cur = [P.neg(a) for a in by[n - 1]]
        for k in range(0, n):
            for a in by[k]:
                for b in by[n - 1 - k]:
                    cur.append(P._and(a, b))
                    cur.append(P._or(a, b))
                    if n <= equiv_levels:
                        cur.append(P.equiv(a, b))
                        cur.append(P.Implies(a, b))
        by[n] = cur
    out = []
    for n in range(0, max_conn + 1):
        out += by[n]
    return out


# ------------------------------------------------------------------------------------------------
# replay of a returned proof
# ------------------------------------------------------------------------------------------------

def replay_thunk(taut, pf, conc, through_checker: bool):
    """run the thunk on a StatefulInterpreter inside a module that declares the prover's axioms;
    returns None or an error string"""
    from . import bridge  # noqa: F401
    from proof_generation.claim import Claim
    from proof_generation.interpreter import ExecutionPhase
    from proof_generation.stateful_interpreter import StatefulInterpreter
    m = pyrun.module_for(pf, axioms=taut.get_axioms(), claim=conc)
    try:
        it = StatefulInterpreter(ExecutionPhase.Gamma, [Claim(conc)])
        m.execute_full(it)
        if it.claims:
            return 'claims left after replay'
    except Exception as ex:  # noqa: BLE001
        return f'replay on StatefulInterpreter raised {type(ex).__name__}: {str(ex)[:200]}'
    if through_checker:
        for opt in (False, True):
            try:
                files = pyrun.serialize_real(m, opt)
            except Exception as ex:  # noqa: BLE001
                return f'serialize(optimize={opt}) raised {type(ex).__name__}: {str(ex)[:200]}'
            g, c, p = pyrun.triple(files)
            if not par.harness().verify(g, c, p):
                return f'checker rejects the serialised proof (optimize={opt})'
            if len(p) > 2500:
                # the optimiser's analysis pass is quadratic in the proof size; C02 covers it systematically
                break
    return None


# ------------------------------------------------------------------------------------------------
# (1)+(2)+(4)
# ------------------------------------------------------------------------------------------------

def cf_shape(cf, allowed, T):
    """check the shape of a ConjForm tree: allowed node classes; negation only where permitted"""
    name = type(cf).__name__
    if name not in allowed:
        return f'unexpected node {name}'
    if name in ('CFOr', 'CFAnd'):
        if cf.negated and not allowed[name]:
            return f'negated {name}'
        return cf_shape(cf.left, allowed, T) or cf_shape(cf.right, allowed, T)
    return None


def is_cnf(cf):
    name = type(cf).__name__
    if name == 'CFAnd':
        return is_cnf(cf.left) and is_cnf(cf.right) and not cf.negated
    return is_disj(cf)


def is_disj(cf):
    name = type(cf).__name__
    if name == 'CFOr':
        return (not cf.negated) and is_disj(cf.left) and is_disj(cf.right)
    return name == 'CFVar'


def prover_chunk(args):
    kind, bound, rows, stride = args
    from . import bridge
    P = bridge.P
    import proof_generation.tautology as TT
    F = formulas_imp(bound) if kind == 'imp' else formulas_notation(*bound)
    taut = TT.Tautology()
    out = {'evals': 0, 'taut': 0, 'unsat': 0, 'contingent': 0, 'replayed': 0, 'checker': 0, 'stage_evals': 0,
           'multi_clause': 0, 'viol': []}

    def bad(stage, pat, what):
        out['viol'].append(({'stage': stage, 'pattern': repr(pat)}, f'{stage} on {pat}: {what}'))

    for i in rows:
        pat = F[i]
        ep = bridge.expand(pat)
        cls = classify(ep)
        out['evals'] += 1
        out[cls] += 1
        try:
            res = taut.prove_tautology(pat)
        except Exception as ex:  # noqa: BLE001
            bad('prove_tautology', pat, f'raised {type(ex).__name__}: {str(ex)[:200]}')
            continue
        want = {'taut': True, 'unsat': False, 'contingent': None}[cls]
        got = None if res is None else res[0]
        if got != want:
            bad('prove_tautology', pat, f'answered {got} but the pattern is {cls}')
            continue
        if res is not None:
            flag, pf = res
            conc_want = ep if flag else ('imp', ep, rm.BOT)
            if bridge.expand(pf.conc) != conc_want:
                bad('prove_tautology', pat, f'proof concludes {pf.conc}')
                continue
            err = replay_thunk(taut, pf, pf.conc, through_checker=(i % stride == 0))
            out['replayed'] += 1
            if i % stride == 0:
                out['checker'] += 1
            if err:
                bad('prove_tautology/replay', pat, err)
        # (4) stages, on neg(pat) exactly as the prover drives them
        try:
            npat = P.neg(pat)
            enp = bridge.expand(npat)
            cf, pf1, pf2 = taut.to_conj_form(npat)
            out['stage_evals'] += 1
            cfp = TT.conj_to_pattern(cf)
            ecf = bridge.expand(cfp)
            if type(cf).__name__ == 'CFBot':
                # pf1 proves npat (negated=True: top) or neg(npat)
                wantc = enp if cf.negated else ('imp', enp, rm.BOT)
                if bridge.expand(pf1.conc) != wantc:
                    bad('to_conj_form', npat, f'degenerate result {cfp} with proof of {pf1.conc}')
                if table(enp) != table(ecf):
                    bad('to_conj_form', npat, f'{cfp} is not equivalent')
                continue
            sh = cf_shape(cf, {'CFOr': True, 'CFVar': True}, TT)
            if sh:
                bad('to_conj_form', npat, f'shape: {sh} in {cfp}')
            if table(enp) != table(ecf):
                bad('to_conj_form', npat, f'{cfp} is not equivalent')
            if bridge.expand(pf1.conc) != ('imp', enp, ecf) or pf2 is None or bridge.expand(pf2.conc) != ('imp', ecf, enp):
                bad('to_conj_form', npat, f'proofs conclude {pf1.conc} / {pf2.conc if pf2 else None}')
            do_replay = (i % stride == 0)
            for nm, pfx in ((('pf1', pf1), ('pf2', pf2)) if do_replay else ()):
                err = replay_thunk(taut, pfx, pfx.conc, False)
                if err:
                    bad('to_conj_form/replay', npat, f'{nm}: {err}')
            # propag_neg mutates its argument: remember the input pattern first
            cf2, q1, q2 = taut.propag_neg(cf)
            out['stage_evals'] += 1
            cf2p = TT.conj_to_pattern(cf2)
            e2 = bridge.expand(cf2p)
            sh = cf_shape(cf2, {'CFOr': False, 'CFAnd': False, 'CFVar': True}, TT)
            if sh:
                bad('propag_neg', cfp, f'shape: {sh} in {cf2p}')
            if table(e2) != table(ecf):
                bad('propag_neg', cfp, f'{cf2p} is not equivalent')
            if bridge.expand(q1.conc) != ('imp', ecf, e2) or bridge.expand(q2.conc) != ('imp', e2, ecf):
                bad('propag_neg', cfp, f'proofs conclude {q1.conc} / {q2.conc}')
            for nm, pfx in ((('pf1', q1), ('pf2', q2)) if do_replay else ()):
                err = replay_thunk(taut, pfx, pfx.conc, False)
                if err:
                    bad('propag_neg/replay', cfp, f'{nm}: {err}')
            cf3, r1, r2 = taut.to_cnf(cf2)
            out['stage_evals'] += 1
            cf3p = TT.conj_to_pattern(cf3)
            e3 = bridge.expand(cf3p)
            if not is_cnf(cf3):
                bad('to_cnf', cf2p, f'result {cf3p} is not in CNF')
            if table(e3) != table(e2):
                bad('to_cnf', cf2p, f'{cf3p} is not equivalent')
            if bridge.expand(r1.conc) != ('imp', e2, e3) or bridge.expand(r2.conc) != ('imp', e3, e2):
                bad('to_cnf', cf2p, f'proofs conclude {r1.conc} / {r2.conc}')
            for nm, pfx in ((('pf1', r1), ('pf2', r2)) if do_replay else ()):
                err = replay_thunk(taut, pfx, pfx.conc, False)
                if err:
                    bad('to_cnf/replay', cf2p, f'{nm}: {err}')
            cls_, s1, s2 = taut.to_clauses(cf3)
            out['stage_evals'] += 1
            if len(cls_) > 1:
                out['multi_clause'] += 1
            cp = TT.clause_conjunctionto_pattern(cls_)
            e4 = bridge.expand(cp)
            if table(e4) != table(e3):
                bad('to_clauses', cf3p, f'{cls_} is not equivalent')
            if bridge.expand(s1.conc) != ('imp', e3, e4) or bridge.expand(s2.conc) != ('imp', e4, e3):
                bad('to_clauses', cf3p, f'proofs conclude {s1.conc} / {s2.conc}')
            for nm, pfx in ((('pf1', s1), ('pf2', s2)) if do_replay else ()):
                err = replay_thunk(taut, pfx, pfx.conc, False)
                if err:
                    bad('to_clauses/replay', cf3p, f'{nm}: {err}')
        except Exception as ex:  # noqa: BLE001
            bad('stages', pat, f'raised {type(ex).__name__}: {str(ex)[:200]}')
    return out


# ------------------------------------------------------------------------------------------------
# (3) clause lists
# ------------------------------------------------------------------------------------------------

def clause_universe(nvars: int, maxlen_clause: int):
    lits = [x for v in range(1, nvars + 1) for x in (v, -v)]
    out = []
    for n in range(1, maxlen_clause + 1):
        for c in itertools.product(lits, repeat=n):
            out.append(list(c))
    return out


def clause_lists(nvars, max_clauses, maxlen_clause, unique_sets=True):
    """ordered lists of clauses. To keep the space finite and meaningful: clauses as literal sequences
    (order and repetition inside a clause matter to the proof construction) for short lists, and canonical
    (sorted, duplicate-free) clauses in every ORDER for longer lists."""
    U = clause_universe(nvars, maxlen_clause)
    if unique_sets:
        seen = set()
        V = []
        for c in U:
            k = frozenset(c)
            if k not in seen and len(k) == len(c):
                seen.add(k)
                V.append(sorted(c, key=lambda x: (abs(x), x)))
        U = V
    for n in range(0, max_clauses + 1):
        for t in itertools.permutations(range(len(U)), n):
            yield [list(U[i]) for i in t]


def clause_tt(clauses, nv):
    def ev(v):
        return all(any((v[abs(x) - 1] if x > 0 else not v[abs(x) - 1]) for x in cl) for cl in clauses)
    vals = [ev(v) for v in itertools.product((False, True), repeat=nv)]
    return 'taut' if all(vals) else 'unsat' if not any(vals) else 'contingent'


def clause_chunk(args):
    lists, nv, stride = args
    from . import bridge
    import proof_generation.tautology as TT
    taut = TT.Tautology()
    out = {'evals': 0, 'taut': 0, 'unsat': 0, 'contingent': 0, 'replayed': 0, 'viol': []}
    for n, cl in enumerate(lists):
        out['evals'] += 1
        cls = clause_tt(cl, nv)
        out[cls] += 1
        try:
            res = taut.start_resolution_algorithm([list(c) for c in cl])
        except Exception as ex:  # noqa: BLE001
            out['viol'].append(({'stage': 'resolution', 'clauses': cl}, f'start_resolution_algorithm({cl}) raised {type(ex).__name__}: {str(ex)[:200]}'))
            continue
        want = {'taut': True, 'unsat': False, 'contingent': None}[cls]
        got = None if res is None else res[0]
        if got != want:
            out['viol'].append(({'stage': 'resolution', 'clauses': cl},
                                f'start_resolution_algorithm({cl}) answered {got} but the clause set is {cls}'))
            continue
        if res is not None:
            flag, pf = res
            term = bridge.expand(TT.clause_conjunctionto_pattern([list(c) for c in cl]))
            wantc = term if flag else ('imp', term, rm.BOT)
            if bridge.expand(pf.conc) != wantc:
                out['viol'].append(({'stage': 'resolution', 'clauses': cl}, f'proof for {cl} concludes {pf.conc}'))
                continue
            if n % stride == 0:
                err = replay_thunk(taut, pf, pf.conc, through_checker=(n % (stride * 8) == 0))
                out['replayed'] += 1
                if err:
                    out['viol'].append(({'stage': 'resolution/replay', 'clauses': cl}, f'{cl}: {err}'))
    return out


def resolution_alg_chunk(args):
    """resolution_algorithm itself (hint construction): returns True iff the set list is unsatisfiable"""
    lists, nv = args
    from . import bridge  # noqa: F401
    import proof_generation.tautology as TT
    taut = TT.Tautology()
    out = {'evals': 0, 'unsat': 0, 'viol': []}
    for cl in lists:
        sets = [frozenset(c) for c in cl]
        if any(taut.is_trivial_clause(s) for s in sets) or len(set(sets)) != len(sets):
            continue
        out['evals'] += 1
        hint = {s: i for i, s in enumerate(sets)}
        try:
            r = taut.resolution_algorithm(hint, list(hint.keys()))
        except Exception as ex:  # noqa: BLE001
            out['viol'].append(({'stage': 'resolution_algorithm', 'clauses': cl}, f'raised {type(ex).__name__}'))
            continue
        unsat = clause_tt(cl, nv) == 'unsat'
        if unsat:
            out['unsat'] += 1
        if r != unsat:
            out['viol'].append(({'stage': 'resolution_algorithm', 'clauses': cl},
                                f'resolution_algorithm on {cl} returns {r} but the set is {"un" if unsat else ""}satisfiable'))
    return out


# ------------------------------------------------------------------------------------------------

def merge(chk, res, prefix, agg):
    for out in res:
        for k, v in out.items():
            if k == 'viol':
                for sig, what in v:
                    chk.violation(sig, sig, what)
            else:
                agg[prefix + k] = agg.get(prefix + k, 0) + v


def replay(path: str) -> int:
    v = json.loads(open(path).read())
    print(json.dumps(v['signature'], indent=1)[:2000])
    print(v.get('what'))
    sig = v['signature']
    if sig['stage'].startswith('resolution'):
        out = clause_chunk(([sig['clauses']], 4, 1))
        for s, w in out['viol']:
            print('still failing:', w)
        return 1 if out['viol'] else 0
    return 1


def main(argv=None) -> int:
    argv = argv or []
    if argv and argv[0] == '--replay':
        return replay(argv[1])
    chk = common.Check(PROP, 'exploration')
    thorough = chk.tier == 'thorough'
    common.build_harness()
    agg: dict = {}
    n = common.ncpu() * 6
    leaves = 5 if thorough else 4
    F = formulas_imp(leaves)
    stride = 16 if thorough else 8
    merge(chk, par.pmap(prover_chunk, [('imp', leaves, ch, stride) for ch in par.chunks(list(range(len(F))), n)]), 'imp_', agg)
    conn = 3 if thorough else 2
    eqlv = 2 if thorough else 1
    G = formulas_notation(conn, eqlv)
    merge(chk, par.pmap(prover_chunk, [('not', (conn, eqlv), ch, stride) for ch in par.chunks(list(range(len(G))), n)]), 'not_', agg)
    # clause lists: all orders
    L3 = list(clause_lists(3, 3, 2 if not thorough else 3))
    if thorough:
        L3 += [l for l in clause_lists(3, 4, 2) if len(l) == 4]
    merge(chk, par.pmap(clause_chunk, [(ch, 3, 40) for ch in par.chunks(L3, n)]), 'cl3_', agg)
    merge(chk, par.pmap(resolution_alg_chunk, [(ch, 3) for ch in par.chunks(L3, n)]), 'alg3_', agg)
    # literal sequences with repetition / arbitrary order inside the clause (proof construction paths)
    Lr = list(clause_lists(2, 2, 3 if thorough else 2, unique_sets=False))
    if not thorough:
        Lr += [[c] for c in clause_universe(2, 3) if len(c) == 3]
    merge(chk, par.pmap(clause_chunk, [(ch, 3, 10) for ch in par.chunks(Lr, n)]), 'clr_', agg)
    # all-trivial clause lists (every clause contains x and ~x): ordered selections of 4 and 5
    triv = [[1, -1], [2, -2], [3, -3], [-1, 1], [-2, 2], [1, 2, -1], [3, -2, 2]]
    Lt = [list(t) for k in (4, 5) for t in itertools.permutations(triv, k)] if thorough else \
        [list(t) for t in itertools.permutations(triv[:6], 4)] + [list(t) for t in itertools.permutations(triv[:5], 5)]
    merge(chk, par.pmap(clause_chunk, [(ch, 3, 20) for ch in par.chunks(Lt, n)]), 'clt_', agg)
    L4 = [l for l in clause_lists(4, 3 if thorough else 2, 2)]
    merge(chk, par.pmap(clause_chunk, [(ch, 4, 40) for ch in par.chunks(L4, n)]), 'cl4_', agg)
    merge(chk, par.pmap(resolution_alg_chunk, [(ch, 4) for ch in par.chunks(L4, n)]), 'alg4_', agg)
    pyrun.cleanup()
    chk.set('evaluations', sum(v for k, v in agg.items() if k.endswith('_evals')))
    chk.set('distinct_nontrivial', sum(v for k, v in agg.items() if k.endswith('_taut') or k.endswith('_unsat')) + agg.get('imp_multi_clause', 0))
    chk.set('rule', 'every formula / clause list of the bounded grammars (each distinct by construction); non-trivial = the input is a '
                    'tautology or unsatisfiable (the prover must produce and we replay a proof) or its CNF has several clauses')
    chk.set('exhaustive', True)
    chk.set('detail', agg)
    chk.set('bounds', {'imp_leaves': leaves, 'imp_formulas': len(F), 'notation_connectives': conn, 'notation_formulas': len(G),
                       'clause_lists_3vars': len(L3), 'clause_seq_lists': len(Lr), 'clause_lists_4vars': len(L4)})
    chk.sample({'formula': str(F[len(F) // 2])})
    chk.sample({'notation_formula': str(G[len(G) // 2])})
    chk.sample({'clause_list': L3[len(L3) // 2]})
    chk.assume('oracle: truth tables over phi0..phi2 (phi3 for the 4-variable clause lists)')
    return chk.finish()


if __name__ == '__main__':
    sys.exit(main(sys.argv[1:]))
