"""C15 -- Metamath compressed proofs are decoded as Appendix B says.

(1) every step number 1..10^6 (2*10^6 thorough): reference encoder (mc/mmref.py) -> parse_database + MetamathConverter (one lemma per stream)
    -> same number; with and without interleaved whitespace;
(2) every letter string of length <=4/5 over A-Y,Z that the reference accepts decodes to the same sequence;
(3) every placement of Z in word sequences of length <=4/5;
(4) label lists of length 0-3 through parse_database in several whitespace layouts;
(5) targets with 0-3 mandatory variables, floating hypotheses declared in every order, under a window of hash
    seeds (one subprocess per seed): numbers index the mandatory hypotheses in database order, then the labels."""
from __future__ import annotations

import itertools
import json
import os
import subprocess
import sys

from . import common, par, mmref

PROP = 'C15'

HEAD = '''$c #Pattern |- \\imp ( ) c0 $.
$v ph0 ph1 ph2 $.
'''
AXIOMS = '''imp-is-pattern $a #Pattern ( \\imp ph0 ph1 ) $.
c0-is-pattern $a #Pattern c0 $.
proof-rule-prop-1 $a |- ( \\imp ph0 ( \\imp ph1 ph0 ) ) $.
proof-rule-prop-2 $a |- ( \\imp ( \\imp ph0 ( \\imp ph1 ph2 ) ) ( \\imp ( \\imp ph0 ph1 ) ( \\imp ph0 ph2 ) ) ) $.
${
    proof-rule-mp.0 $e |- ( \\imp ph0 ph1 ) $.
    proof-rule-mp.1 $e |- ph0 $.
    proof-rule-mp   $a |- ph1 $.
$}
ax.k $a |- ( \\imp ph0 ( \\imp ph1 ph0 ) ) $.
.id $a |- ( \\imp c0 c0 ) $.
'''


def converter_for(text):
    from . import bridge  # noqa: F401  (sys.path)
    from proof_generation.metamath.converter.converter import MetamathConverter
    from proof_generation.metamath.parser import parse_database
    return MetamathConverter(parse_database(text))


def decode_many(proofs):
    """decode compressed proof texts through the public path (one database holding one lemma per proof text, parsed and
    converted): -> list of step lists, or of exception strings"""
    from . import bridge  # noqa: F401
    from proof_generation.metamath.converter.converter import MetamathConverter
    from proof_generation.metamath.parser import parse_database

    def run(batch):
        text = '$c #Pattern |- t $.\n' + ''.join(f'lem{i} $p |- t $= {pr} $.\n' for i, pr in enumerate(batch))
        conv = MetamathConverter(parse_database(text))
        return [list(conv.get_lemma_by_name(f'lem{i}').proof.applied_lemmas) for i in range(len(batch))]
    try:
        return run(proofs)
    except Exception:  # noqa: BLE001
        out = []
        for pr in proofs:
            try:
                out.append(run([pr])[0])
            except Exception as ex:  # noqa: BLE001
                out.append(f'{type(ex).__name__}: {str(ex)[:100]}')
        return out


def numbers_chunk(rng):
    lo, hi = rng
    out = {'evals': 0, 'viol': []}
    B = 1000
    batches = []
    for start in range(lo, hi, B):
        nums = list(range(start, min(hi, start + B)))
        words = [mmref.encode_number(n) for n in nums]
        # reference self-inverse and uniqueness of the encoding (strictly increasing in (length, alphabetical-by-value))
        for n, w in zip(nums, words):
            if mmref.decode_word(w) != n:
                raise AssertionError('reference codec broken')
        for layout in ('plain', 'spaced'):
            letters = ''.join(words) if layout == 'plain' else '\n  '.join(''.join(words[i:i + 7]) for i in range(0, len(words), 7))
            batches.append((nums, words, '( ) ' + letters))
    for (nums, words, _), got in zip(batches, decode_many([b[2] for b in batches])):
        if isinstance(got, str):
            out['viol'].append(({'part': 'numbers', 'first': nums[0]}, f'decoding the encodings of {nums[0]}..{nums[-1]} raised {got}'))
            continue
        out['evals'] += len(nums)
        if got != nums:
            k = next(i for i, (a, b) in enumerate(zip(got + [None] * len(nums), nums)) if a != b)
            out['viol'].append(({'part': 'numbers', 'number': nums[k]},
                                f'step number {nums[k]} (encoded {words[k]}) decodes to {got[k] if k < len(got) else None}'))
    return out


LETTERS = mmref.LS + mmref.MS + 'Z'


def strings_chunk(args):
    prefixes, n = args
    out = {'evals': 0, 'valid': 0, 'with_Z': 0, 'viol': []}
    # a reduced alphabet keeps the space exhaustive: two low digits, two high digits, Z
    alpha = 'ATUYZ' if n > 3 else LETTERS
    todo = []
    for pre in prefixes:
        for rest in itertools.product(alpha, repeat=n - len(pre)):
            s = pre + ''.join(rest)
            out['evals'] += 1
            ref = mmref.split_words(s)
            if ref is None:
                continue
            out['valid'] += 1
            if 'Z' in ref:
                out['with_Z'] += 1
            todo.append((s, [0 if w == 'Z' else w for w in ref]))
    for k in range(0, len(todo), 2000):
        part = todo[k:k + 2000]
        for (s, want), got in zip(part, decode_many(['( ) ' + s for s, _ in part])):
            if isinstance(got, str):
                out['viol'].append(({'part': 'strings', 'letters': s}, f'valid compressed proof {s!r} raised {got}'))
            elif got != want:
                out['viol'].append(({'part': 'strings', 'letters': s}, f'{s!r} decodes to {got}, Appendix B says {want} (0 = Z)'))
    return out


def layouts(labels, letters):
    lab = ' '.join(labels)
    yield 'single', f'( {lab} ) {letters}' if labels else f'( ) {letters}'
    yield 'newlines', '(\n' + '\n'.join(labels) + '\n)\n' + letters
    yield 'tabs', '(\t' + '\t'.join(labels) + '\t)\t' + letters
    yield 'doubled', '(  ' + '   '.join(labels) + '  )  ' + letters
    yield 'own_line', '\n  ( ' + lab + ' )\n  ' + letters + '\n'
    yield 'split_letters', f'( {lab} ) ' + ' '.join(letters[i:i + 2] for i in range(0, len(letters), 2))


def labels_chunk(_):
    out = {'evals': 0, 'viol': []}
    # (labels may contain periods, hyphens and underscores)
    pool = ['imp-is-pattern', 'proof-rule-prop-1', 'ax.k', 'proof-rule-mp', '.id', 'proof-rule-prop-2']
    floats = ''.join(f'{v}-is-pattern $f #Pattern {v} $.\n' for v in ('ph0', 'ph1', 'ph2'))
    for n in range(0, 4):
        for labs in itertools.permutations(pool, n):
            letters = 'AAABZ' if n else 'AA'
            for lname, proof in layouts(list(labs), letters):
                out['evals'] += 1
                text = HEAD + floats + AXIOMS + f'goal $p |- ( \\imp ph0 ph0 ) $= {proof} $.\n'
                try:
                    conv = converter_for(text)
                    pr = conv.get_lemma_by_name('goal').proof
                except Exception as ex:  # noqa: BLE001
                    out['viol'].append(({'part': 'labels', 'layout': lname, 'n': n}, f'label list {labs} in layout {lname}: {type(ex).__name__}: {str(ex)[:120]}'))
                    continue
                want = {1: 'ph0-is-pattern'}
                for i, l in enumerate(labs):
                    want[2 + i] = l
                wl = [0 if w == 'Z' else w for w in mmref.split_words(letters)]
                if pr.labels != want or pr.applied_lemmas != wl:
                    out['viol'].append(({'part': 'labels', 'layout': lname, 'n': n},
                                        f'label list {labs} in layout {lname}: labels {pr.labels} steps {pr.applied_lemmas}; expected {want} {wl}'))
    return out


LEMMAS = [
    # (statement, label list, letters): the converter decodes without verifying, so any well-formed stream will do
    ('( \\imp ph0 ph0 )', ['imp-is-pattern', 'proof-rule-prop-1'], 'AABZCD'),
    ('( \\imp ph0 ( \\imp ph0 ph0 ) )', ['proof-rule-mp'], 'ABZC'),
    ('( \\imp ph0 ph0 )', [], 'AZAB'),
    ('( \\imp ph1 ( \\imp ph0 ph1 ) )', ['imp-is-pattern', 'proof-rule-prop-2', 'proof-rule-prop-1'], 'ABCDEZF'),
    ('( \\imp ph0 ( \\imp ph1 ph0 ) )', ['proof-rule-prop-1'], 'ABC'),
    ('( \\imp c0 c0 )', ['c0-is-pattern', 'imp-is-pattern'], 'AAB'),
]


def lemma_seq_chunk(seqs):
    """several compressed proofs in ONE database: each is decoded as if it were alone (nothing carries over)"""
    out = {'evals': 0, 'viol': []}
    floats = ''.join(f'{v}-is-pattern $f #Pattern {v} $.\n' for v in ('ph0', 'ph1', 'ph2'))
    for seq in seqs:
        out['evals'] += 1
        text = HEAD + floats + AXIOMS
        for pos, li in enumerate(seq):
            stmt, labs, letters = LEMMAS[li]
            text += f'lem{pos} $p |- {stmt} $= ( {" ".join(labs)}{" " if labs else ""}) {letters} $.\n'
        try:
            conv = converter_for(text)
        except Exception as ex:  # noqa: BLE001
            out['viol'].append(({'part': 'lemma_sequence', 'kind': 'raises'}, {'sequence': list(seq)}, f'database with lemmas {seq}: {type(ex).__name__}: {str(ex)[:120]}'))
            continue
        for pos, li in enumerate(seq):
            stmt, labs, letters = LEMMAS[li]
            want = {}
            i = 1
            for v in ('ph0', 'ph1', 'ph2'):
                if v in stmt.split():
                    want[i] = f'{v}-is-pattern'
                    i += 1
            for l in labs:
                want[i] = l
                i += 1
            wl = [0 if w == 'Z' else w for w in mmref.split_words(letters)]
            try:
                pr = conv.get_lemma_by_name(f'lem{pos}').proof
                got = (dict(pr.labels), list(pr.applied_lemmas))
            except Exception as ex:  # noqa: BLE001
                got = f'{type(ex).__name__}: {str(ex)[:100]}'
            if got != (want, wl):
                out['viol'].append(({'part': 'lemma_sequence', 'kind': 'carry_over', 'position': pos}, {'sequence': list(seq)},
                                    f'database with lemmas {seq}: lemma #{pos} decodes to {got}, alone it is {(want, wl)}'))
    return out


def seed_worker():
    """runs in a subprocess with a fixed PYTHONHASHSEED: prints what the converter numbers"""
    res = []
    vars3 = ('ph0', 'ph1', 'ph2')
    targets = {0: '( \\imp c0 c0 )', 1: '( \\imp ph1 ph1 )', 2: '( \\imp ph2 ( \\imp ph0 ph2 ) )',
               3: '( \\imp ph1 ( \\imp ph2 ph0 ) )'}
    tvars = {0: (), 1: ('ph1',), 2: ('ph0', 'ph2'), 3: ('ph0', 'ph1', 'ph2')}
    for order in itertools.permutations(vars3):
        floats = ''.join(f'{v}-is-pattern $f #Pattern {v} $.\n' for v in order)
        for k, tgt in targets.items():
            text = HEAD.replace('\\imp ( )', '\\imp ( )') + floats + AXIOMS + f'goal $p |- {tgt} $= ( imp-is-pattern proof-rule-prop-1 ) A $.\n'
            try:
                conv = converter_for(text)
                labels = conv.get_lemma_by_name('goal').proof.labels
                res.append({'order': order, 'k': k, 'labels': {str(a): b for a, b in labels.items()}})
            except Exception as ex:  # noqa: BLE001
                res.append({'order': order, 'k': k, 'error': f'{type(ex).__name__}: {str(ex)[:100]}'})
    observed = {str(k): list({*v}) for k, v in tvars.items()}
    print(json.dumps({'results': res, 'set_orders': observed, 'tvars': {str(k): v for k, v in tvars.items()}}))


def run_seed(seed):
    env = dict(os.environ, PYTHONHASHSEED=str(seed))
    r = subprocess.run([sys.executable, '-m', 'mc.c15', '--seedworker'], capture_output=True, text=True, env=env, cwd=str(common.VERIF))
    if r.returncode != 0:
        return seed, None, r.stderr[-300:]
    return seed, json.loads(r.stdout.strip().splitlines()[-1]), None


def replay(path: str) -> int:
    v = json.loads(open(path).read())
    print(json.dumps(v['signature']), '\n', v.get('what'))
    sig = v['signature']
    if sig.get('part') == 'numbers':
        n = sig.get('number', sig.get('first'))
        out = numbers_chunk((n, n + 1))
        return 1 if out['viol'] else 0
    if sig.get('part') == 'lemma_sequence':
        out = lemma_seq_chunk([tuple(v['replay']['sequence'])])
        for _, _, w in out['viol']:
            print('still failing:', w)
        return 1 if out['viol'] else 0
    if sig.get('part') == 'strings':
        got = decode_many(['( ) ' + sig['letters']])[0]
        print('decoded:', got, 'reference:', mmref.split_words(sig['letters']))
        return 1
    if sig.get('part') == 'hashseed':
        s, data, err = run_seed(sig['seed'])
        print(err or [r for r in data['results'] if r['k'] == sig['k'] and list(r['order']) == sig['order']])
        return 1
    return 1


def main(argv=None) -> int:
    argv = argv or []
    if argv and argv[0] == '--seedworker':
        seed_worker()
        return 0
    if argv and argv[0] == '--replay':
        return replay(argv[1])
    chk = common.Check(PROP, 'exploration')
    thorough = chk.tier == 'thorough'
    agg: dict = {}

    def merge(res, prefix):
        for out in res:
            for k, v in out.items():
                if k == 'viol':
                    for sig, what in v:
                        chk.violation(sig, sig, what)
                else:
                    agg[prefix + k] = agg.get(prefix + k, 0) + v

    N = 2_000_000 if thorough else 1_000_000
    step = 25_000
    merge(par.pmap(numbers_chunk, [(a, min(N + 1, a + step)) for a in range(1, N + 1, step)]), 'num_')
    slen = 5 if thorough else 4
    for n in range(1, slen + 1):
        alpha = 'ATUYZ' if n > 3 else LETTERS
        merge(par.pmap(strings_chunk, [([p], n) for p in alpha]), 'str_')
    merge([labels_chunk(None)], 'lab_')
    seqs = [t for k in ((1, 2, 3, 4) if thorough else (1, 2, 3)) for t in itertools.product(range(len(LEMMAS)), repeat=k)]
    for out in par.pmap(lemma_seq_chunk, par.chunks(seqs, common.ncpu() * 2)):
        agg['seq_evals'] = agg.get('seq_evals', 0) + out['evals']
        for sig, rep, what in out['viol']:
            chk.violation(sig, dict(rep, signature=sig), what)
    # marked steps are numbered after the labels, in the order of their marks -- resolved when the proof is executed:
    # every placement of at most two marks in a valid proof of ph0 -> ph0 (equal expressions may be marked twice)
    from . import c16, mmgen  # noqa: F401
    common.build_harness()
    nodes = mmref.tree_size(c16.zplace_targets()[0][3])
    subs = list(c16.mark_subsets(nodes, 2))
    for out in par.pmap(c16.zplace_chunk, [(0, ch) for ch in par.chunks(subs, common.ncpu() * 2)]):
        agg['mark_evals'] = agg.get('mark_evals', 0) + out['evals']
        for sig, d, what in out['viol']:
            sig = dict(sig, part='mark_placement')
            chk.violation(sig, {'signature': sig, 'case': d}, what)
    # several lemmas executed on one converter: marked steps belong to one proof
    swork = [list(t) for k in (1, 2, 3) for t in itertools.permutations(('la', 'lb', 'lc'), k)]
    for out in par.pmap(c16.lemma_sequence_chunk, swork):
        agg['mark_evals'] = agg.get('mark_evals', 0) + out['evals']
        for sig, d, what in out['viol']:
            sig = dict(sig, part='lemma_sequence_execution')
            chk.violation(sig, {'signature': sig, 'case': d}, what)
    from . import pyrun
    pyrun.cleanup()
    nseeds = 32 if thorough else 8
    seeds = [16 * chk.seed + i for i in range(nseeds)]
    orders_seen: dict[str, set] = {}
    for seed, data, err in par.pmap(run_seed, seeds):
        agg['seed_runs'] = agg.get('seed_runs', 0) + 1
        if data is None:
            chk.violation({'part': 'hashseed', 'seed': seed, 'kind': 'crash'}, {'seed': seed}, f'worker under PYTHONHASHSEED={seed} failed: {err}')
            continue
        for k, o in data['set_orders'].items():
            orders_seen.setdefault(k, set()).add(tuple(o))
        for r in data['results']:
            agg['seed_cases'] = agg.get('seed_cases', 0) + 1
            k = r['k']
            tv = data['tvars'][str(k)]
            want = {}
            i = 1
            for v in r['order']:
                if v in tv:
                    want[str(i)] = f'{v}-is-pattern'
                    i += 1
            want[str(i)] = 'imp-is-pattern'
            want[str(i + 1)] = 'proof-rule-prop-1'
            if 'error' in r:
                chk.violation({'part': 'hashseed', 'k': k, 'kind': 'raises'}, {'seed': seed, 'order': r['order'], 'k': k},
                              f'PYTHONHASHSEED={seed}, floating hypotheses declared as {r["order"]}, {k} mandatory variables: {r["error"]}')
            elif r['labels'] != want:
                chk.violation({'part': 'hashseed', 'k': k, 'kind': 'order'}, {'seed': seed, 'order': r['order'], 'k': k},
                              f'PYTHONHASHSEED={seed}, floating hypotheses declared as {r["order"]}: numbers map to {r["labels"]}, '
                              f'database order gives {want}')
    chk.set('evaluations', agg.get('num_evals', 0) + agg.get('str_evals', 0) + agg.get('lab_evals', 0) + agg.get('seed_cases', 0)
            + agg.get('seq_evals', 0) + agg.get('mark_evals', 0))
    chk.set('distinct_nontrivial', agg.get('num_evals', 0) // 2 + agg.get('str_valid', 0) + agg.get('lab_evals', 0) + agg.get('seq_evals', 0) + agg.get('mark_evals', 0))
    chk.set('rule', 'every step number up to the bound (two whitespace layouts each), every letter string of the bounded alphabets '
                    '(non-trivial: accepted by the reference decoder), every label list x layout, every sequence of <=3/4 lemmas in one database, every placement of <=2 reuse marks in a valid proof, every declaration order x target x hash seed')
    chk.set('exhaustive', True)
    chk.set('detail', agg)
    chk.set('hash_seeds', seeds)
    chk.set('set_iteration_orders_observed', {k: sorted(map(list, v)) for k, v in orders_seen.items()})
    chk.sample({'number': 1000000, 'encoding': mmref.encode_number(1000000)})
    chk.sample({'letters': 'UAZYT', 'reference': mmref.split_words('UAZYT')})
    chk.assume('reference: Appendix B of the Metamath book as implemented in mc/mmref.py (validated by verifying every shipped benchmark)')
    chk.assume('hash seeds are walked in a window selected by VERIF_SEED; orders of the 2- and 3-element variable sets actually observed are listed')
    return chk.finish()


if __name__ == '__main__':
    sys.exit(main(sys.argv[1:]))
