"""C19 -- pretty-printed notation shows the arguments it depends on; pretty files correspond to binary files.

(a) every shipped notation (propositional, definedness, Kore, sorted / Kore quantifiers, forall, generated n-ary
    applications) x all ordered pairs of argument tuples from a pool with pairwise distinct renderings: two
    applications that expand to different patterns must be rendered differently;
(b) for modules (shipped, import-graph family, DSL expressions) and both optimise settings: the step lines of the
    .pretty-* files correspond one-to-one, in order, kind and operands, to the instructions decoded from .ml-*."""
from __future__ import annotations

import itertools
import json
import sys

from . import common, par, pyrun
from . import refmachine as rm

PROP = 'C19'


def notations():
    from . import bridge
    P = bridge.P
    import proof_generation.proofs.kore as K
    import proof_generation.proofs.definedness as D
    import proof_generation.proofs.substitution as Sb
    from proof_generation.proofs.propositional import Propositional
    groups = []
    groups.append(('Propositional', Propositional().pretty_options(), [P.bot, P.neg, P.top, P._and, P._or, P.equiv]))
    groups.append(('Definedness', D.Definedness().pretty_options(), [D.ceil, D.floor, D.subset, D.equals, D.functional]))
    groups.append(('KoreLemmas', K.KoreLemmas().pretty_options(), list(K.KORE_NOTATIONS)))
    groups.append(('Substitution', Sb.Substitution().pretty_options(), [Sb.forall(0)]))
    loose = [K.sorted_exists(0), K.sorted_exists(1), K.kore_exists(0), K.kore_exists(2), Sb.forall(1), Sb.forall(2)]
    loose += [K.nary_app(P.Symbol('f'), n, c) for n in range(0, 4) for c in (False, True)]
    # wide applications: format fields with two-digit indices
    loose += [K.nary_app(P.Symbol('w'), n, c) for n in (9, 10, 11, 12) for c in (False, True)]
    for n in loose:
        groups.append((f'own:{n.label}', P.PrettyOptions(notations={n.definition: n}), [n]))
    return groups


def arg_pool(n):
    from . import bridge
    P = bridge.P
    # neighbours differ only in their CLASS (same fields): x1 / X1, exists / mu -- anything keyed on field values confuses them
    return [P.EVar(0), P.EVar(1), P.SVar(1), P.MetaVar(0), P.Exists(0, P.EVar(1)), P.Mu(0, P.EVar(1)), P.Symbol('s'),
            P.App(P.EVar(0), P.EVar(1)), P.Implies(P.EVar(0), P.EVar(1)),
            # symbols whose names differ only in white space (K domain values become symbol names verbatim)
            P.Symbol('a b'), P.Symbol('a  b'), P.Symbol(' a b'), P.Symbol('a\tb')][:n]


def notation_chunk(args):
    gidx, pool_n = args
    from . import bridge
    groups = notations()
    name, opts, nots = groups[gidx]
    pool = arg_pool(pool_n) if pool_n > 0 else arg_pool(13)[pool_n:]      # negative: only the last entries (the white-space twins)
    rend = [p.pretty(opts) for p in pool]
    assert len(set(rend)) == len(rend)
    out = {'evals': 0, 'distinct_pairs': 0, 'viol': []}
    for n in nots:
        pl = pool if n.arity <= 2 else (pool[:4] if n.arity == 3 else pool[:3])
        if n.arity > 4:
            # wide notations: a base tuple and every tuple that differs from it in exactly one position
            base = (0,) * n.arity
            tuples = [base] + [base[:i] + (1,) + base[i + 1:] for i in range(n.arity)]
        else:
            tuples = list(itertools.product(range(len(pl)), repeat=n.arity))
        apps = []
        for t in tuples:
            a = n(*[pl[i] for i in t])
            try:
                s = a.pretty(opts)
            except Exception as ex:  # noqa: BLE001
                out['viol'].append(({'notation': n.label, 'kind': 'render_raises'}, f'{n.label}{t}: pretty raised {type(ex).__name__}: {ex}'))
                s = None
            apps.append((t, bridge.expand(a), s))
        if n.arity == 2:
            # the notation nested in itself, to the left and to the right (brackets must keep the tree shapes apart)
            for x, y, z in itertools.permutations(pl[:3], 3):
                for a in (n(n(x, y), z), n(x, n(y, z)), n(n(x, y), n(z, x))):
                    try:
                        apps.append((('nested', str(a)), bridge.expand(a), a.pretty(opts)))
                    except Exception as ex:  # noqa: BLE001
                        out['viol'].append(({'notation': n.label, 'kind': 'render_raises'}, f'{n.label} nested in itself: pretty raised {type(ex).__name__}: {ex}'))
        # the same applications reached through instantiation (a rebuilt argument map must still print its
        # arguments in the notation's positions)
        P = bridge.P
        for t in tuples:
            args = [pl[i] for i in t]
            if not any(a == P.MetaVar(0) for a in args) or n.arity < 2:
                continue
            for repl in (P.EVar(1), P.Symbol('s')):
                try:
                    a2 = n(*args).instantiate({0: repl})
                    apps.append((t + ('inst', str(repl)), bridge.expand(a2), a2.pretty(opts)))
                except Exception as ex:  # noqa: BLE001
                    out['viol'].append(({'notation': n.label, 'kind': 'render_raises'}, f'{n.label}{t}.instantiate: {type(ex).__name__}: {ex}'))
        for (t1, e1, s1), (t2, e2, s2) in itertools.permutations(apps, 2):
            out['evals'] += 1
            if e1 != e2:
                out['distinct_pairs'] += 1
                if s1 is not None and s1 == s2:
                    nested = (t1 and t1[0] == 'nested') or (t2 and t2[0] == 'nested')
                    out['viol'].append(({'notation': n.label, 'kind': 'same_rendering_nested_in_itself' if nested else 'same_rendering'},
                                        f'{n.label} applied to {[rend[i] if isinstance(i, int) else i for i in t1]} and to {[rend[i] if isinstance(i, int) else i for i in t2]} denote different patterns but both print as {s1!r}'))
                    break
    return out


# ------------------------------------------------------------------------------------------------
# (b) file correspondence
# ------------------------------------------------------------------------------------------------

OPN = {2: 'EVar', 3: 'SVar', 4: 'Symbol', 5: 'Implies', 6: 'App', 7: 'Mu', 8: 'Exists', 9: 'MetaVar', 137: 'MetaVar', 10: 'ESubst',
       11: 'SSubst', 12: 'Prop1', 13: 'Prop2', 14: 'Prop3', 15: 'Quantifier', 21: 'ModusPonens', 22: 'Generalization',
       26: 'Instantiate', 27: 'Pop', 28: 'Save', 29: 'Load', 30: 'Publish'}


def decode(buf: bytes):
    """-> list of (kind, operand tuple)"""
    out = []
    i = 0
    n = len(buf)
    while i < n:
        op = buf[i]
        i += 1
        k = OPN.get(op)
        if k is None:
            raise ValueError(f'unknown opcode {op}')
        if op in (2, 3, 4, 7, 8, 10, 11, 22, 29, 137):
            out.append((k, (buf[i],)))
            i += 1
        elif op == 9:
            ident = buf[i]
            i += 1
            lists = []
            for _ in range(5):
                ln = buf[i]
                lists.append(tuple(buf[i + 1:i + 1 + ln]))
                i += 1 + ln
            out.append((k, (ident,) + tuple(lists)))
        elif op == 26:
            ln = buf[i]
            out.append((k, tuple(buf[i + 1:i + 1 + ln])))
            i += 1 + ln
        else:
            out.append((k, ()))
    return out


LISTNAMES = ('eFresh', 'sFresh', 'pos', 'neg', 'appctx')


def pretty_steps(text: str, syms: dict):
    """-> list of (kind, operands) from a pretty listing; `syms` (name -> number) is shared by the three files"""
    steps = []
    for l in text.splitlines():
        if l.startswith('\t') or not l.strip():
            continue
        if l.startswith(LISTNAMES) and steps and steps[-1][0] == 'MetaVar':
            steps[-1][2].append(l)
            continue
        w = l.split()
        kind = w[0]
        if kind == 'MetaVar':
            # 'MetaVar 0eFresh, len=1 x0 ' : id glued to the first list
            rest = l[len('MetaVar '):]
            ident = ''
            j = 0
            while j < len(rest) and rest[j].isdigit():
                ident += rest[j]
                j += 1
            extra = [rest[j:]] if rest[j:].strip() else []
            steps.append(['MetaVar', int(ident), extra])
            continue
        steps.append([kind, l[len(kind):].strip(), None])
    out = []
    for s in steps:
        kind = s[0]
        if kind == 'MetaVar':
            lists = {nm: () for nm in LISTNAMES}
            for chunk in s[2]:
                for nm in LISTNAMES:
                    if chunk.startswith(nm):
                        items = chunk.split()[2:]
                        lists[nm] = tuple(int(x[1:]) for x in items)
            out.append(('MetaVar', (s[1],) + tuple(lists[nm] for nm in LISTNAMES)))
        elif kind in ('EVar', 'SVar', 'Exists', 'Mu'):
            out.append((kind, (int(s[1]),)))
        elif kind == 'Symbol':
            syms.setdefault(s[1], len(syms))
            out.append((kind, (syms[s[1]],)))
        elif kind in ('ESubst', 'SSubst'):
            out.append((kind, (int(s[1].split('=')[1]),)))
        elif kind == 'Generalization':
            out.append((kind, (int(s[1]),)))
        elif kind == 'Instantiate':
            keys = tuple(int(x) for x in s[1].replace(',', ' ').split())
            out.append((kind, tuple(reversed(keys))))      # the binary lists the ids in reverse key order
        elif kind == 'Load':
            out.append((kind, (int(s[1].split('=')[-1]),)))
        else:
            out.append((kind, ()))
    return out


def normalise_binary(steps):
    """clean metavars (137) carry no lists"""
    out = []
    for k, ops in steps:
        if k == 'MetaVar' and len(ops) == 1:
            ops = (ops[0], (), (), (), (), ())
        out.append((k, ops))
    return out


def correspond(mod_factory, desc0):
    viols = []
    desc = desc0
    n = 0
    for opt, objects in itertools.product((False, True), ('fresh', 'one_binary_first', 'one_pretty_first')):
        desc = dict(desc0, objects=objects) if objects != 'fresh' else desc0
        try:
            # the two formats are written from two fresh module objects, or from ONE object in either order (what the first
            # run leaves behind in the object must not change what the second one writes)
            if objects == 'fresh':
                fb = pyrun.serialize_real(mod_factory(), opt, 'binary')
                fp = pyrun.serialize_real(mod_factory(), opt, 'pretty')
            else:
                obj = mod_factory()
                if objects == 'one_binary_first':
                    fb = pyrun.serialize_real(obj, opt, 'binary')
                    fp = pyrun.serialize_real(obj, opt, 'pretty')
                else:
                    fp = pyrun.serialize_real(obj, opt, 'pretty')
                    fb = pyrun.serialize_real(obj, opt, 'binary')
        except Exception as ex:  # noqa: BLE001
            # the toolkit refuses this module in some format: only a difference between the formats matters here
            try:
                pyrun.serialize_real(mod_factory(), opt, 'binary')
                viols.append((dict(desc, kind='pretty_refuses'), f'{desc}: pretty serialisation raised {type(ex).__name__} although binary succeeds'))
            except Exception:  # noqa: BLE001
                pass
            continue
        syms: dict = {}
        for ph in ('gamma', 'claim', 'proof'):
            n += 1
            try:
                b = normalise_binary(decode(fb['ml-' + ph]))
                p = pretty_steps(fp['pretty-' + ph].decode(), syms)
            except Exception as ex:  # noqa: BLE001
                viols.append((dict(desc, kind='undecodable', phase=ph), f'{desc} {ph} optimize={opt}: cannot decode: {type(ex).__name__}: {ex}'))
                continue
            if b != p:
                k = next((i for i, (x, y) in enumerate(zip(b, p)) if x != y), min(len(b), len(p)))
                viols.append((dict(desc, kind='steps_differ', phase=ph),
                              f'{desc} {ph} optimize={opt}: {len(b)} instructions vs {len(p)} listed steps; first difference at {k}: '
                              f'binary {b[k] if k < len(b) else None} pretty {p[k] if k < len(p) else None}'))
    return viols, n


def files_chunk(specs):
    from . import modgraph, c02
    out = {'evals': 0, 'files': 0, 'viol': []}
    lib = None
    for spec in specs:
        kind = spec[0]
        out['evals'] += 1
        if kind == 'graph':
            _, shape, idx, mode, share = spec
            fac = lambda: modgraph.build(shape, tuple(idx), mode, share)[0]  # noqa: E731
            desc = {'module': 'graph', 'shape': shape, 'axioms': list(idx), 'claims': mode, 'share': share}
        elif kind == 'shipped':
            import importlib
            cls = getattr(importlib.import_module(spec[1]), spec[2])
            fac = cls
            desc = {'module': spec[2]}
        else:
            d = spec[1]
            if lib is None:
                lib = c02.make_lib(light=True)

            def fac(d=d):
                l2 = c02.make_lib(light=True)
                return pyrun.module_for(c02.build(d, l2), axioms=l2.get_axioms(), notations=l2.get_notations())
            desc = {'module': 'expr', 'expr': c02.show_desc(d)}
            try:
                fac()
            except Exception:  # noqa: BLE001
                continue
        v, n = correspond(fac, desc)
        out['files'] += n
        out['viol'] += v
    return out


def replay(path: str) -> int:
    v = json.loads(open(path).read())
    print(json.dumps(v['signature']), '\n', v.get('what'))
    sig = v['signature']
    if 'notation' in sig:
        for gi, (name, opts, nots) in enumerate(notations()):
            if any(n.label == sig['notation'] for n in nots):
                out = notation_chunk((gi, 13))
                bad = [w for s, w in out['viol'] if s['notation'] == sig['notation']]
                for w in bad[:3]:
                    print('still failing:', w)
                return 1 if bad else 0
    return 1


def main(argv=None) -> int:
    argv = argv or []
    if argv and argv[0] == '--replay':
        return replay(argv[1])
    chk = common.Check(PROP, 'exploration')
    thorough = chk.tier == 'thorough'
    agg: dict = {}
    ng = len(notations())
    for out in par.pmap(notation_chunk, [(g, 13 if thorough else 7) for g in range(ng)] + [(g, -4) for g in range(ng)]):
        for k, v in out.items():
            if k == 'viol':
                for sig, what in v:
                    chk.violation(sig, sig, what)
            else:
                agg['not_' + k] = agg.get('not_' + k, 0) + v
    from . import modgraph, c02
    specs = [('graph',) + sp for sp in modgraph.family(4 if thorough else 3)]
    specs += [('graph',) + sp for sp in modgraph.twin_family() if sp[0] == 'single']
    specs += [('shipped', m, c) for m, c in c02.SHIPPED]
    prim = c02.level0(4)
    exprs = prim + c02.successors(prim, prim, 6 if thorough else 4, 3 if thorough else 2)
    exprs += [('inst', d, ()) for d in prim] + [('dinst', d, ()) for d in prim] + [('inst', ('inst', d, ()), ((0, 2),)) for d in prim[:3]]
    specs += [('expr', d) for d in exprs]
    for out in par.pmap(files_chunk, par.chunks(specs, common.ncpu() * 6)):
        for k, v in out.items():
            if k == 'viol':
                for sig, what in v:
                    chk.violation(sig, sig, what)
            else:
                agg['files_' + k] = agg.get('files_' + k, 0) + v
    pyrun.cleanup()
    chk.set('evaluations', agg.get('not_evals', 0) + agg.get('files_files', 0))
    chk.set('distinct_nontrivial', agg.get('not_distinct_pairs', 0) + agg.get('files_files', 0))
    chk.set('rule', 'all ordered pairs of argument tuples per notation (non-trivial: the two applications expand to different patterns); '
                    'every (module, optimise setting, phase) file pair')
    chk.set('exhaustive', True)
    chk.set('detail', agg)
    chk.set('bounds', {'notation_groups': ng, 'argument_pool': 13 if thorough else 7, 'whitespace_twins': 4, 'module_specs': len(specs)})
    chk.sample({'notation_pair': 'equiv(x0, x1) vs equiv(x1, x0)'})
    chk.sample({'module_spec': [str(x) for x in specs[len(specs) // 3]]})
    chk.assume('instruction decoder and listing parser are in mc/c19.py; Instantiate ids are listed in key order by the pretty printer and in reverse key order in the binary')
    return chk.finish()


if __name__ == '__main__':
    sys.exit(main(sys.argv[1:]))
