"""E5 -- deterministic bounded-exhaustive term universes (tuple terms of refmachine), simplest first."""
from __future__ import annotations

from functools import lru_cache

from . import refmachine as rm
from . import refpat

BOT = rm.BOT

CONCRETE_ATOMS = (rm.evar(0), rm.evar(1), rm.svar(0), rm.svar(1), rm.sym(0), BOT)
META_ATOMS = (rm.mv(0), rm.mv(1), rm.mv(2))
CONSTRAINED = (rm.mv(0, E=(0,)), rm.mv(0, S=(0,)), rm.mv(0, P=(0,)), rm.mv(0, N=(0,)), rm.mv(1, E=(1,)),
               rm.mv(0, P=(1,), N=(1,)), rm.mv(0, P=(0,), N=(0,)), rm.mv(1, S=(1,)), rm.mv(0, P=(0, 1)), rm.mv(0, N=(1,)),
               rm.mv(0, E=(1, 0)), rm.mv(1, S=(1, 0)), rm.mv(1, P=(1, 0), N=(1, 0)))


def _build(n: int, atoms: tuple, evs: tuple, svs: tuple, use_app: bool, use_mu: bool, substs: bool, cache: dict):
    if n in cache:
        return cache[n]
    out = []
    if n == 1:
        out = list(atoms)
    else:
        # unary binders
        for body in _build(n - 1, atoms, evs, svs, use_app, use_mu, substs, cache):
            for x in evs:
                out.append(rm.ex(x, body))
            if use_mu:
                for X in svs:
                    if rm.positive(body, X):
                        out.append(rm.mu(X, body))
        # binary
        for k in range(1, n - 1):
            ls = _build(k, atoms, evs, svs, use_app, use_mu, substs, cache)
            rs = _build(n - 1 - k, atoms, evs, svs, use_app, use_mu, substs, cache)
            for a in ls:
                for b in rs:
                    out.append(rm.imp(a, b))
                    if use_app:
                        out.append(rm.app(a, b))
        # pending substitutions: head must be mv/esub/ssub, plug any smaller term; node cost 1 + head + plug
        if substs:
            for k in range(1, n - 1):
                hs = [h for h in _build(k, atoms, evs, svs, use_app, use_mu, substs, cache) if h[0] in ('mv', 'esub', 'ssub')]
                ps = _build(n - 1 - k, atoms, evs, svs, use_app, use_mu, substs, cache)
                for h in hs:
                    for p in ps:
                        for x in evs:
                            t = rm.esub(h, x, p)
                            if not rm.redundant(t):
                                out.append(t)
                        for X in svs:
                            t = rm.ssub(h, X, p)
                            if not rm.redundant(t):
                                out.append(t)
    # dedupe preserving order (bot is both an atom and mu 0 (svar 0))
    seen = set()
    res = []
    for t in out:
        if t not in seen:
            seen.add(t)
            res.append(t)
    cache[n] = res
    return res


_CACHES: dict = {}


def terms(maxn: int, atoms: tuple = CONCRETE_ATOMS, evs=(0, 1), svs=(0, 1), use_app=True, use_mu=True, substs=False):
    """all terms with node count 1..maxn (bot counts as one node), in order of size"""
    key = (atoms, evs, svs, use_app, use_mu, substs)
    cache = _CACHES.setdefault(key, {})
    out = []
    seen = set()
    for n in range(1, maxn + 1):
        for t in _build(n, atoms, evs, svs, use_app, use_mu, substs, cache):
            if t not in seen:
                seen.add(t)
                out.append(t)
    return out


def concrete(maxn: int, **kw):
    return terms(maxn, CONCRETE_ATOMS, **kw)


def meta(maxn: int, constrained: bool = True, substs: bool = True, **kw):
    atoms = CONCRETE_ATOMS + META_ATOMS + (CONSTRAINED if constrained else ())
    return terms(maxn, atoms, substs=substs, **kw)


# pools of plugs ----------------------------------------------------------------------------------

NEG = rm.neg
CONCRETE_POOL = (
    rm.evar(0), rm.evar(1), rm.svar(0), BOT, rm.sym(0), NEG(BOT), NEG(rm.evar(0)), NEG(rm.svar(0)),
    rm.imp(rm.evar(0), rm.evar(1)), rm.ex(0, rm.evar(0)), rm.app(rm.sym(0), rm.evar(0)), rm.svar(1), rm.ex(1, rm.evar(0)),
    rm.mu(0, rm.svar(0)), NEG(rm.svar(1)), rm.mu(1, rm.imp(NEG(rm.svar(1)), rm.svar(0))),
)

META_POOL = (
    rm.evar(0), rm.evar(1), rm.svar(0), BOT, rm.mv(0), rm.mv(1), rm.mv(1, E=(0,)), rm.sym(0), rm.ex(0, rm.evar(0)),
    rm.imp(rm.evar(0), rm.evar(1)), rm.ex(1, rm.evar(0)), rm.app(rm.sym(0), rm.evar(0)), rm.mu(0, rm.svar(0)), NEG(rm.mv(0)),
    rm.mv(1, S=(0,)), rm.esub(rm.mv(1), 0, rm.evar(1)), rm.svar(1), rm.mv(2),
    rm.ex(0, rm.mv(0)), rm.mu(0, rm.mv(0, P=(0,))), rm.ssub(rm.mv(1), 0, rm.evar(0)), NEG(rm.evar(0)), NEG(rm.svar(0)),
    rm.ssub(rm.mv(0, E=(0,)), 0, rm.evar(0)), rm.esub(rm.mv(0, S=(0,)), 0, rm.svar(0)), rm.imp(rm.sym(0), rm.sym(0)),
)


def term_bytes(t) -> bytes:
    """instruction bytes that construct the (pattern) term on the stack"""
    k = t[0]
    if k == 'evar':
        return bytes([2, t[1]])
    if k == 'svar':
        return bytes([3, t[1]])
    if k == 'sym':
        return bytes([4, t[1]])
    if k == 'imp':
        return term_bytes(t[1]) + term_bytes(t[2]) + bytes([5])
    if k == 'app':
        return term_bytes(t[1]) + term_bytes(t[2]) + bytes([6])
    if k == 'ex':
        return term_bytes(t[2]) + bytes([8, t[1]])
    if k == 'mu':
        return term_bytes(t[2]) + bytes([7, t[1]])
    if k == 'mv':
        if not any(t[2:]):
            return bytes([137, t[1]])
        out = [9, t[1]]
        for lst in t[2:]:
            out.append(len(lst))
            out.extend(lst)
        return bytes(out)
    if k == 'esub':
        return term_bytes(t[3]) + term_bytes(t[1]) + bytes([10, t[2]])
    if k == 'ssub':
        return term_bytes(t[3]) + term_bytes(t[1]) + bytes([11, t[2]])
    raise ValueError(k)
