"""C04 -- the generator-side verifier state is a faithful simulation of the real machine.

BFS over sequences of interpreter calls on a real SerializingInterpreter (mc/interp_explore.py). After every
accepted call the bytes emitted so far are executed by the real Rust machine (harness R) and by the reference
machine E2; stack (minus entries already consumed by a publish, which the tracker deliberately keeps -- pinned
by an existing test), memory and claims must be the same terms modulo notation expansion and symbol numbering.
"""
from __future__ import annotations

import json
import sys

from . import common, par
from . import refmachine as rm

PROP = 'C04'


def compare(view, dump, phase, published, declared_n):
    """tracker view vs machine dump -> None or description"""
    stack, memory, claims, new_syms = view
    mst, mme, mcl = rm.parse_state(dump)
    if new_syms:
        return 'tracker holds a symbol that was never emitted'
    if tuple(mst) != tuple(stack):
        return f'stack: machine {[k + ":" + rm.show(t) for k, t in mst]} tracker {[k + ":" + rm.show(t) for k, t in stack]}'
    if tuple(mme) != tuple(memory):
        return f'memory: machine {[k + ":" + rm.show(t) for k, t in mme]} tracker {[k + ":" + rm.show(t) for k, t in memory]}'
    if phase == 2:
        if tuple(reversed(mcl)) != tuple(claims):
            return f'claims: machine (next last) {[rm.show(t) for t in mcl]} tracker (next first) {[rm.show(t) for t in claims]}'
    elif phase == 1:
        want = tuple(reversed(claims))[:published]
        if tuple(mcl) != want:
            return f'claims published so far: machine {[rm.show(t) for t in mcl]} expected {[rm.show(t) for t in want]}'
    else:
        if mcl:
            return 'machine holds claims in the gamma phase'
    return None


def allowed_by_rules(hist, en) -> bool:
    """would the documented machine accept this call on the tracker's own operands? (False = the tracker lacks a check the
    document requires: the known findings; True = tracker and document agree the call is fine, so a machine rejection is
    a defect of what was emitted)"""
    from . import interp_explore as ix
    from . import bridge
    sim = ix.replay_history(hist)
    st = [bridge.expand(x.conclusion if isinstance(x, ix.Proved) else x) for x in sim.it.stack]
    k = en.split()[0]
    try:
        if k == 'mu':
            return rm.positive(st[-1], int(en.split()[1]))
        if k in ('esubst', 'ssubst'):
            t = ('esub' if k == 'esubst' else 'ssub', st[-1], int(en.split()[1]), st[-2])
            return st[-1][0] in ('mv', 'esub', 'ssub') and not rm.redundant(t)
        if k == 'instantiate':
            inside = en[en.index('(') + 1:en.index(')')]
            keys = [int(x) for x in inside.split(',') if x.strip()]
            n = len(keys)
            plugs = st[len(st) - 1 - n:len(st) - 1]
            rm.instantiate(st[-1], keys, plugs, rm.Ctx('drop_mv'))
            return True
    except (rm.Reject, rm.Unspecified):
        return False
    except Exception:  # noqa: BLE001
        return True
    return True


def expand_chunk(args):
    histories, event_names, caps = args
    from . import interp_explore as ix
    from . import bridge
    h = par.harness()
    max_stack, max_mem, max_size = caps
    stats = {'transitions': 0, 'accepted': 0, 'raised': 0, 'capped': 0, 'pruned_leftover': 0, 'loads': 0, 'e2_unspec': 0,
             'e2_checked': 0}
    pending = []
    for hist in histories:
        sim = ix.replay_history(hist)
        snap = sim.snapshot()
        for en in event_names:
            stats['transitions'] += 1
            leftover = ix.touches_ghost(sim, en)
            try:
                ix.EVENTS[en](sim)
            except Exception:  # noqa: BLE001
                stats['raised'] += 1
                sim.restore(snap)
                continue
            stats['accepted'] += 1
            it = sim.it
            child = hist + (en,)
            g, c, p = sim.bytes3()
            try:
                view = ix.tracker_view(sim)
                cn = ix.canon(sim)
                big = len(it.stack) > max_stack or len(it.memory) > max_mem or any(
                    rm.size(t) > max_size for _, t in view[0])
            except Exception as ex:  # noqa: BLE001
                view, cn, big = None, None, True
            pending.append((child, g, c, p, sim.phase_no(), view, cn, big, leftover, sim.published_claims, en))
            sim.restore(snap)
    ans = h.ask_many([f'R {ph} {common.hx(g)} {common.hx(c)} {common.hx(p)}' for (_, g, c, p, ph, *_r) in pending])
    children = []
    viols = []
    for (child, g, c, p, ph, view, cn, big, leftover, published, en), a in zip(pending, ans):
        ev_kind = en.split()[0]
        if en.startswith('load'):
            stats['loads'] += 1
        if leftover:
            # the call consumed a tracker entry that the machine already popped at publish time
            stats['pruned_leftover'] += 1
            viols.append(({'kind': 'uses_published_leftover', 'event': ev_kind}, list(child),
                          f'{en} is addressed at a term the tracker kept after publishing it; the machine popped it'))
            continue
        if not a.startswith('OK '):
            r2 = rm.run3(g, c, p, ph)
            reason = r2[1] if r2[0] == 'REJECT' else r2[0]
            if r2[0] == 'UNSPEC':
                # the document does not define the outcome of this stream (e.g. a judgement on application-context
                # holes): no documented machine to agree with -- counted, not expanded, not an alarm
                stats['unspecified_and_rejected'] = stats.get('unspecified_and_rejected', 0) + 1
                continue
            viols.append(({'kind': 'machine_rejects', 'event': ev_kind, 'reason': reason,
                           'allowed_by_documented_rules': allowed_by_rules(child[:-1], en)}, list(child),
                          f'after {list(child)} the checker rejects the emitted bytes (reference: {reason}) although the tracker accepted'))
            continue
        err = compare(view, a[3:], ph, published, 2) if view is not None else 'tracker state cannot be expanded'
        if err:
            viols.append(({'kind': 'state_mismatch', 'event': ev_kind, 'what': err.split(':')[0]}, list(child), f'after {list(child)}: {err}'))
            continue
        # the documented machine (three-valued): must not reject
        r2 = rm.run3(g, c, p, ph)
        stats['e2_checked'] += 1
        if r2[0] == 'REJECT':
            viols.append(({'kind': 'doc_machine_rejects', 'event': ev_kind, 'reason': r2[1]}, list(child),
                          f'after {list(child)} the documented machine rejects ({r2[1]}) what tracker and checker accept'))
            continue
        if r2[0] == 'UNSPEC':
            stats['e2_unspec'] += 1
        if big:
            stats['capped'] += 1
            continue
        children.append((child, cn))
    return children, stats, viols


def run_bfs(chk, event_names, depth, caps, agg, label, seeds=((),)):
    seen = set()
    frontier = [tuple(s) for s in seeds]
    levels = []
    for lvl in range(1, depth + 1):
        work = [(ch, event_names, caps) for ch in par.chunks(frontier, common.ncpu() * 4)]
        res = par.pmap(expand_chunk, work)
        nxt = []
        for children, stats, viols in res:
            for k, v in stats.items():
                agg[k] = agg.get(k, 0) + v
            for sig, hist, what in viols:
                chk.violation(sig, {'history': hist, 'signature': sig}, what)
            for child, cn in children:
                if cn not in seen:
                    seen.add(cn)
                    nxt.append(child)
        levels.append(len(nxt))
        frontier = nxt
        if not frontier:
            break
    agg['states'] = agg.get('states', 0) + len(seen) + 1
    agg.setdefault('levels', []).append({'alphabet': label, 'new_states_per_depth': levels})
    return frontier


def capacity_histories(chk, agg):
    """long histories: n saved terms, then a Load of the last one -- either the call is refused or the bytes address the
    slot that holds the intended term (the operand is one byte)"""
    from . import interp_explore as ix
    P = ix.P
    h = common.Harness()
    for n in (200, 255, 256, 257, 300):
        sim = ix.Sim()
        it = sim.it
        terms = [P.EVar(i) if i < 256 else P.App(P.EVar(i - 256), P.EVar(0)) for i in range(n)]
        try:
            for i, t in enumerate(terms):
                x = it.pattern(t)
                it.save(f'm{i}', x)
                it.pop(x)
        except Exception as ex:  # noqa: BLE001
            agg['capacity_refused'] = agg.get('capacity_refused', 0) + 1
            continue
        agg['capacity_histories'] = agg.get('capacity_histories', 0) + 1
        for k in sorted({0, n // 2, n - 1}):
            try:
                it.load(f'm{k}', it.memory[k])
            except Exception:  # noqa: BLE001
                agg['capacity_load_refused'] = agg.get('capacity_load_refused', 0) + 1
                continue
            g, c, p = sim.bytes3()
            d = h.run(g, c, p, sim.phase_no())
            want = rm.show(ix.bridge.expand(terms[k]))
            top = d.split('|')[0].split(';')[-1] if d else None
            if top is None or top[2:] != want:
                sig = {'kind': 'load_addresses_wrong_slot', 'saved_terms': n, 'slot': k}
                chk.violation(sig, {'history': f'{n} x (pattern, save, pop); load {k}', 'signature': sig},
                              f'after saving {n} terms, load of slot {k} (holding {want}) makes the machine push {top}')
            agg['capacity_loads'] = agg.get('capacity_loads', 0) + 1
            it.pop(it.stack[-1])


def replay(path: str) -> int:
    v = json.loads(open(path).read())
    hist = tuple(v['replay']['history'])
    print('history:', list(hist))
    from . import interp_explore as ix
    try:
        sim = ix.replay_history(hist)
    except Exception as ex:  # noqa: BLE001
        print('the tracker no longer accepts this history:', type(ex).__name__, ex)
        return 0
    g, c, p = sim.bytes3()
    print('bytes  :', g.hex() or '-', c.hex() or '-', p.hex() or '-')
    h = common.Harness()
    d = h.run(g, c, p, sim.phase_no())
    print('checker:', d)
    print('tracker:', [str(x) for x in sim.it.stack], '| memory', [str(x) for x in sim.it.memory], '| ghosts', sim.ghosts)
    print('ref    :', rm.run3(g, c, p, sim.phase_no())[:2])
    if d is None:
        return 1
    err = compare(ix.tracker_view(sim), d, sim.phase_no(), sim.published_claims, 2)
    print('compare:', err)
    return 1 if err else 0


def main(argv=None) -> int:
    argv = argv or []
    if argv and argv[0] == '--replay':
        return replay(argv[1])
    chk = common.Check(PROP, 'model_checking')
    thorough = chk.tier == 'thorough'
    common.build_harness()
    from . import interp_explore as ix
    agg: dict = {}
    raw = [n for n, _ in ix.RAW_EVENTS]
    macro = [n for n, _ in ix.MACRO_EVENTS]
    caps = (5, 3, 14)
    last = run_bfs(chk, raw, 5 if thorough else 4, caps, agg, 'raw')
    # macro alphabet: whole patterns through Interpreter.pattern plus the rule / memory / publish events
    rules = [n for n in raw if n.split()[0] in ('prop1', 'prop2', 'prop3', 'exists_quantifier', 'modus_ponens', 'generalization',
                                                'instantiate', 'pop', 'save', 'load', 'publish', 'next')]
    last2 = run_bfs(chk, macro + rules, 4 if thorough else 3, caps, agg, 'macro')
    # non-initial start: the proof phase after a gamma phase with two axioms and the declared claims published
    seed = ('pattern (phi0 -> phi0)', 'publish', 'pattern (1 -> a)', 'publish', 'next phase',
            'pattern (∃ x0 . x0)', 'publish', 'pattern (phi0 -> phi0)', 'publish', 'next phase')
    last3 = run_bfs(chk, raw, 4 if thorough else 3, (5, 4, 14), agg, 'proof-phase-seed/raw', seeds=(seed,))
    last4 = run_bfs(chk, macro + rules, 3 if thorough else 2, (5, 4, 14), agg, 'proof-phase-seed/macro', seeds=(seed,))
    # a theory that proves BOTH declared claims, its axioms in the other order: proofs can be offered out of claim order
    seed2 = ('pattern (∃ x0 . x0)', 'publish', 'pattern (phi0 -> phi0)', 'publish', 'next phase',
             'pattern (∃ x0 . x0)', 'publish', 'pattern (phi0 -> phi0)', 'publish', 'next phase')
    run_bfs(chk, rules, 5 if thorough else 4, (5, 4, 14), agg, 'both-claims-provable-seed/rules', seeds=(seed2,))
    # a theory-less module whose single claim is provable in one step and is not an axiom: after its proof is published the
    # memories must still agree (then save and load something)
    one_claim = ('@claims:prop1', 'next phase', 'metavar 0', 'metavar 1', 'metavar 0', 'implies', 'implies', 'publish', 'next phase')
    run_bfs(chk, ['prop1', 'prop2', 'publish', 'save', 'load 0', 'load 1', 'pop'], 5 if thorough else 4, (5, 4, 14), agg,
            'one-provable-claim', seeds=(one_claim,))
    # the same term in memory twice with different KINDS: saved as a pattern and published as an axiom (what a memoising front
    # end does with an axiom that is also a frequent sub-pattern); both are loaded
    both_kinds = ('pattern (phi0 -> phi0)', 'save', 'publish')
    run_bfs(chk, ['load 0', 'load 1', 'pop', 'save', 'next phase'], 4 if thorough else 3, (5, 4, 14), agg,
            'pattern-and-axiom-in-memory', seeds=(both_kinds,))
    # two saved terms that PRINT alike (constraints are not printed) and are loaded one after the other: labels passed to
    # save/load are built from the printed form, as the toolkit's own callers do
    twins = ('metavar 0', 'save', 'pop', 'metavar 0 e_fresh x0', 'save', 'pop')
    run_bfs(chk, ['load 0', 'load 1', 'pop', 'implies', 'save', 'metavar 0', 'metavar 0 e_fresh x0'], 4 if thorough else 3, (5, 4, 14), agg,
            'print-twins-in-memory', seeds=(twins,))
    capacity_histories(chk, agg)
    chk.set('states', agg.get('states', 0))
    chk.set('transitions', agg.get('transitions', 0))
    chk.set('traces_validated_against_impl', agg.get('accepted', 0))
    chk.set('exhaustive', True)
    chk.set('detail', agg)
    chk.set('bounds', {'raw_events': len(raw), 'macro_events': len(macro) + len(rules), 'caps(stack,mem,size)': caps})
    for fr in (last, last2, last3):
        if fr:
            chk.sample({'history': list(fr[len(fr) // 2])})
    chk.assume('arguments of every call are the tracker\'s own stack entries (as ProofExp and the deserialiser drive it)')
    chk.assume('publish_claim is only issued for the declared claims in the order ProofExp publishes them')
    chk.assume('entries the tracker keeps after a publish are ignored when comparing stacks; a later call that consumes one is the known finding')
    return chk.finish()


if __name__ == '__main__':
    sys.exit(main(sys.argv[1:]))
