"""Generator of Metamath databases in the fragment the translator supports, with *valid* derivations
(every generated proof is verified by the reference verifier mc/mmref.py before it is used)."""
from __future__ import annotations

import itertools

from . import mmref

V = lambda n: ('var', n)  # noqa: E731


def A(sym, *subs):
    return ('app', sym, tuple(subs))


IMP = lambda a, b: A('\\imp', a, b)  # noqa: E731
TH = A('|-')
PAT = A('#Pattern')


class Features:
    def __init__(self, float_order=(0, 1, 2), notation=False, rules=True, dv=False, extra_consts=True):
        self.float_order = float_order
        self.notation = notation
        self.rules = rules
        self.dv = dv
        self.extra_consts = extra_consts

    def key(self):
        return (self.float_order, self.notation, self.rules, self.dv)


def prelude(ft: Features):
    consts = ['#Pattern', '|-', '\\imp', '(', ')', 'c0', 'c1', '\\f', '\\g']
    if ft.notation:
        consts += ['#Notation', '\\nt']
    st = [('c', tuple(consts)), ('v', ('ph0', 'ph1', 'ph2'))]
    for i in ft.float_order:
        st.append(('f', f'ph{i}-is-pattern', '#Pattern', f'ph{i}'))
    st += [
        ('a', 'imp-is-pattern', (PAT, IMP(V('ph0'), V('ph1')))),
        ('a', 'c0-is-pattern', (PAT, A('c0'))),
        ('a', 'c1-is-pattern', (PAT, A('c1'))),
        ('a', 'f-is-pattern', (PAT, A('\\f', V('ph0')))),
        ('a', 'g-is-pattern', (PAT, A('\\g', V('ph0'), V('ph1'), V('ph2')))),
    ]
    if ft.notation:
        st += [('a', 'nt-is-pattern', (PAT, A('\\nt', V('ph0')))),
               ('a', 'nt-is-sugar', (A('#Notation'), A('\\nt', V('ph0')), IMP(V('ph0'), A('c0'))))]
    st += [
        ('a', 'proof-rule-prop-1', (TH, IMP(V('ph0'), IMP(V('ph1'), V('ph0'))))),
        ('a', 'proof-rule-prop-2', (TH, IMP(IMP(V('ph0'), IMP(V('ph1'), V('ph2'))), IMP(IMP(V('ph0'), V('ph1')), IMP(V('ph0'), V('ph2')))))),
        ('block', [('e', 'proof-rule-mp.0', (TH, IMP(V('ph0'), V('ph1')))), ('e', 'proof-rule-mp.1', (TH, V('ph0'))),
                   ('a', 'proof-rule-mp', (TH, V('ph1')))]),
        ('a', 'ax-a', (TH, IMP(A('c0'), A('c1')))),
        ('a', 'ax-b', (TH, A('\\f', A('c0')))),
        ('a', 'ax-c', (TH, IMP(A('\\f', V('ph1')), A('\\g', V('ph1'), V('ph0'), A('c1'))))),
    ]
    if ft.notation:
        st.append(('a', 'ax-n', (TH, A('\\nt', A('c1')))))
    if ft.rules:
        st += [
            ('block', [('e', 'rule-r.0', (TH, V('ph0'))), ('a', 'rule-r', (TH, A('\\f', V('ph0'))))]),
            ('block', [('e', 'rule-s.0', (TH, V('ph0'))), ('e', 'rule-s.1', (TH, IMP(V('ph0'), V('ph1')))),
                       ('a', 'rule-s', (TH, A('\\g', V('ph1'), V('ph0'), A('c0'))))]),
            # a rule whose conclusion is ground while its hypotheses are schematic
            ('block', [('e', 'rule-t.0', (TH, A('\\f', V('ph0')))),
                       ('a', 'rule-t', (TH, A('\\g', A('c1'), A('c0'), A('c1'))))]),
            # two hypotheses; ph1 occurs ONLY in the first one (not in the last hypothesis, not in the conclusion)
            ('block', [('e', 'rule-v.0', (TH, A('\\g', V('ph0'), V('ph1'), A('c0')))), ('e', 'rule-v.1', (TH, IMP(V('ph0'), V('ph2')))),
                       ('a', 'rule-v', (TH, V('ph2')))]),
            # the same hypothesis stated twice (one proof is supplied per $e statement)
            ('block', [('e', 'rule-d.0', (TH, V('ph0'))), ('e', 'rule-d.1', (TH, V('ph0'))),
                       ('a', 'rule-d', (TH, A('\\g', V('ph0'), V('ph0'), A('c1'))))]),
            # a rule without any metavariable: ground hypothesis, ground conclusion
            ('block', [('e', 'rule-u.0', (TH, A('\\f', A('c0')))),
                       ('a', 'rule-u', (TH, A('\\g', A('c0'), A('c0'), A('c0'))))]),
        ]
    return st


WFF = {'\\imp': 'imp-is-pattern', 'c0': 'c0-is-pattern', 'c1': 'c1-is-pattern', '\\f': 'f-is-pattern', '\\g': 'g-is-pattern',
       '\\nt': 'nt-is-pattern'}


def wff_tree(t, frames):
    """proof tree of '#Pattern t' ; argument order = mandatory-hypothesis order of the constructor axiom"""
    if t[0] == 'var':
        return (f'{t[1]}-is-pattern', [])
    lab = WFF[t[1]]
    fr = frames[lab]
    # the constructor axiom's body is ( sym v1 v2 ...): bind its variables positionally
    formal = fr.body[1]
    bind = {}
    for fv, actual in zip(formal[2], t[2]):
        bind[fv[1]] = actual
    return (lab, [wff_tree(bind[h[3]], frames) for h in fr.hyps])


def apply(label, frames, subst, ess_trees):
    """tree applying assertion `label` with float substitution `subst` (var -> term) and proofs for the essentials"""
    fr = frames[label]
    subs = []
    ei = 0
    for h in fr.hyps:
        if h[0] == 'f':
            subs.append(wff_tree(subst[h[3]], frames))
        else:
            subs.append(ess_trees[ei])
            ei += 1
    return (label, subs)


def term_pool(ft: Features, n: int):
    pool = [V('ph0'), V('ph1'), A('c0'), A('\\f', V('ph0')), IMP(V('ph1'), A('c1')), V('ph2'), A('\\g', A('c0'), V('ph0'), V('ph1'))]
    if ft.notation:
        pool.insert(3, A('\\nt', V('ph0')))
    return pool[:n]


def derivations(ft: Features, height: int, npool: int, max_per_level: int = 400):
    """BFS over proof trees: returns list of (theorem term, tree, height); every tree is valid by construction
    (and re-verified by the caller)."""
    st = prelude(ft)
    v = mmref.verify_db(st)
    frames = {k: f for k, f in v.labels.items() if isinstance(f, mmref.Frame)}
    pool = term_pool(ft, npool)
    thms = {}

    def add(t, tree, h):
        key = mmref.term_str(t)
        if key not in thms:
            thms[key] = (t, tree, h)
            return True
        return False

    for a, b in itertools.product(pool, repeat=2):
        add(IMP(a, IMP(b, a)), apply('proof-rule-prop-1', frames, {'ph0': a, 'ph1': b}, []), 0)
    for a, b, c in itertools.product(pool[:3], repeat=3):
        add(IMP(IMP(a, IMP(b, c)), IMP(IMP(a, b), IMP(a, c))), apply('proof-rule-prop-2', frames, {'ph0': a, 'ph1': b, 'ph2': c}, []), 0)
    # targets with three metavariables
    p0, p1, p2 = V('ph0'), V('ph1'), V('ph2')
    add(IMP(IMP(p0, IMP(p1, p2)), IMP(IMP(p0, p1), IMP(p0, p2))), apply('proof-rule-prop-2', frames, {'ph0': p0, 'ph1': p1, 'ph2': p2}, []), 0)
    add(IMP(IMP(p2, IMP(p0, p1)), IMP(IMP(p2, p0), IMP(p2, p1))), apply('proof-rule-prop-2', frames, {'ph0': p2, 'ph1': p0, 'ph2': p1}, []), 0)
    add(IMP(p2, IMP(IMP(p1, p0), p2)), apply('proof-rule-prop-1', frames, {'ph0': p2, 'ph1': IMP(p1, p0)}, []), 0)
    add(IMP(A('c0'), A('c1')), ('ax-a', []), 0)
    add(A('\\f', A('c0')), ('ax-b', []), 0)
    for a, b in itertools.product(pool[:4], repeat=2):
        add(IMP(A('\\f', b), A('\\g', b, a, A('c1'))), apply('ax-c', frames, {'ph0': a, 'ph1': b}, []), 0)
    if ft.notation:
        add(A('\\nt', A('c1')), ('ax-n', []), 0)
    G = A('\\g', A('c0'), A('c0'), A('c0'))
    if ft.rules:
        # the ground rule's conclusion as antecedent of a prop-1 instance, so that modus ponens takes it as MINOR premise
        add(IMP(G, IMP(A('c0'), G)), apply('proof-rule-prop-1', frames, {'ph0': G, 'ph1': A('c0')}, []), 0)
    for h in range(1, height + 1):
        cur = list(thms.values())
        new = 0
        for t1, tr1, h1 in cur:
            if t1[0] == 'app' and t1[1] == '\\imp':
                a, b = t1[2]
                for t2, tr2, h2 in cur:
                    if t2 == a and max(h1, h2) == h - 1:
                        if add(b, apply('proof-rule-mp', frames, {'ph0': a, 'ph1': b}, [tr1, tr2]), h):
                            new += 1
            if ft.rules and h1 == h - 1 and new < max_per_level:
                if add(A('\\f', t1), apply('rule-r', frames, {'ph0': t1}, [tr1]), h):
                    new += 1
                if mmref.tree_size(tr1) <= 12 and add(A('\\g', t1, t1, A('c1')), apply('rule-d', frames, {'ph0': t1}, [tr1, tr1]), h):
                    new += 1
        if ft.rules:
            for t1, tr1, h1 in cur:
                # rule-v: from g(X, Y, c0) and X -> Z conclude Z
                if t1[0] == 'app' and t1[1] == '\\g' and t1[2][2] == A('c0'):
                    x, y = t1[2][0], t1[2][1]
                    for t2, tr2, h2 in cur:
                        if new >= max_per_level:
                            break
                        if t2[0] == 'app' and t2[1] == '\\imp' and t2[2][0] == x and max(h1, h2) == h - 1:
                            z = t2[2][1]
                            # every such application is a different derivation of z: key it by its premises
                            key = 'rule-v:' + mmref.term_str(t1) + '|' + mmref.term_str(z)
                            if key not in thms and sum(1 for k in thms if k.startswith('rule-v:')) < 12:
                                thms[key] = (z, apply('rule-v', frames, {'ph0': x, 'ph1': y, 'ph2': z}, [tr1, tr2]), h)
                                new += 1
            for t1, tr1, h1 in cur:
                if t1 == A('\\f', A('c0')) and h1 == h - 1:
                    if add(G, ('rule-u', [tr1]), h):
                        new += 1
            for t1, tr1, h1 in cur:
                if t1[0] == 'app' and t1[1] == '\\f' and h1 == h - 1:
                    # every proof of the ground conclusion is a different derivation: key it by its premise
                    key = 'rule-t:' + mmref.term_str(t1)
                    if key not in thms:
                        thms[key] = (A('\\g', A('c1'), A('c0'), A('c1')), apply('rule-t', frames, {'ph0': t1[2][0]}, [tr1]), h)
                        new += 1
            for t1, tr1, h1 in cur:
                for t2, tr2, h2 in cur:
                    if new >= max_per_level:
                        break
                    if t2[0] == 'app' and t2[1] == '\\imp' and t2[2][0] == t1 and max(h1, h2) == h - 1:
                        b = t2[2][1]
                        if add(A('\\g', b, t1, A('c0')), apply('rule-s', frames, {'ph0': t1, 'ph1': b}, [tr1, tr2]), h):
                            new += 1
    return st, frames, list(thms.values())


def mandatory_labels(ft: Features, target):
    vs = mmref.term_vars(target)
    return [f'ph{i}-is-pattern' for i in ft.float_order if f'ph{i}' in vs]


def database_with_goal(ft: Features, target, tree, layout='none', label='goal'):
    st = prelude(ft)
    proof = mmref.encode_compressed(tree, mandatory_labels(ft, target), layout)
    st = st + [('p', label, (TH, target), proof)]
    return st


def database_with_marks(ft: Features, target, tree, marks, ref='latest', label='goal'):
    st = prelude(ft)
    proof = mmref.encode_compressed_marks(tree, mandatory_labels(ft, target), marks, ref)
    return st + [('p', label, (TH, target), proof)]


def big_database(n: int, layout: str = 'none'):
    """a database with n extra constant constructors k0..k(n-1); the target |- ( \\imp T ( \\imp c0 T ) ) is an
    instance of prop-1 where T mentions every constant, so the
    proof's label list has about n entries and its step numbers pass the 20/120/620 letter boundaries."""
    ft = Features()
    st = prelude(ft)
    ks = [f'k{i}' for i in range(n)]
    st = st + [('c', tuple(ks))] + [('a', f'{k}-is-pattern', (PAT, A(k))) for k in ks]
    for k in ks:
        WFF[k] = f'{k}-is-pattern'
    v = mmref.verify_db(st)
    frames = {k: f for k, f in v.labels.items() if isinstance(f, mmref.Frame)}
    sel = ks
    def bal(lst):
        # a balanced tree: every constant is mentioned, the nesting depth stays logarithmic
        if len(lst) == 1:
            return A(lst[0])
        h = len(lst) // 2
        return IMP(bal(lst[:h]), bal(lst[h:]))
    t = bal(sel)
    # in the 'every' layout the big term is used twice, so that its second occurrence is one reference to a late mark
    second = t if layout == 'every' else A('c0')
    target = IMP(t, IMP(second, t))
    tree = apply('proof-rule-prop-1', frames, {'ph0': t, 'ph1': second}, [])
    if layout == 'every':
        # marks after the first 150 steps of the big term's well-formedness proof (more would exceed the 256 memory slots of
        # the proof format); its second occurrence is then ONE reference to a mark numbered far beyond the labels
        first = mmref.tree_size(tree[1][0])
        proof = mmref.encode_compressed_marks(tree, [], frozenset(range(1, 1 + min(first, 150))), 'latest')
    else:
        proof = mmref.encode_compressed(tree, [], layout)
    return st + [('p', 'goal', (TH, target), proof)], target


def many_vars_database(layout: str = 'none', swap: bool = False, with_lemma: bool = False):
    """twelve pattern variables ph0..ph11 declared in numeric order; a constructor, an axiom and a rule that mix ph2 and
    ph10 (whose NAMES sort the other way round); the target is a ground instance that tells the two apart"""
    ft = Features()
    st = prelude(ft)
    st += [('c', ('\\h',)), ('v', tuple(f'ph{i}' for i in range(3, 12)))]
    st += [('f', f'ph{i}-is-pattern', '#Pattern', f'ph{i}') for i in range(3, 12)]
    p2, p10 = V('ph2'), V('ph10')
    H = lambda a, b: A('\\h', a, b)  # noqa: E731
    st += [('a', 'h-is-pattern', (PAT, H(p2, p10))),
           ('a', 'ax-m', (TH, IMP(H(p2, p10), IMP(p10, H(p2, p10))))),
           ('block', [('e', 'rule-m.0', (TH, H(p2, p10))), ('a', 'rule-m', (TH, IMP(p10, p2)))])]
    WFF['\\h'] = 'h-is-pattern'
    v = mmref.verify_db(st)
    frames = {k: f for k, f in v.labels.items() if isinstance(f, mmref.Frame)}
    a, b = (A('c1'), A('c0')) if swap else (A('c0'), A('c1'))
    target = IMP(H(a, b), IMP(b, H(a, b)))
    if with_lemma:
        # a lemma over ph2 and ph10 themselves (mandatory hypotheses in declaration order: ph2 first), used by the goal
        lt = IMP(H(p2, p10), IMP(p10, H(p2, p10)))
        st = st + [('p', 'l11', (TH, lt), mmref.encode_compressed(apply('ax-m', frames, {'ph2': p2, 'ph10': p10}, []),
                                                                ['ph2-is-pattern', 'ph10-is-pattern'], layout))]
        v = mmref.verify_db(st)
        frames = {k: f for k, f in v.labels.items() if isinstance(f, mmref.Frame)}
        tree = apply('l11', frames, {'ph2': a, 'ph10': b}, [])
    else:
        tree = apply('ax-m', frames, {'ph2': a, 'ph10': b}, [])
    if layout == 'every':
        # marks after the first 150 steps of the big term's well-formedness proof (more would exceed the 256 memory slots of
        # the proof format); its second occurrence is then ONE reference to a mark numbered far beyond the labels
        first = mmref.tree_size(tree[1][0])
        proof = mmref.encode_compressed_marks(tree, [], frozenset(range(1, 1 + min(first, 150))), 'latest')
    else:
        proof = mmref.encode_compressed(tree, [], layout)
    return st + [('p', 'goal', (TH, target), proof)], target
