"""C01 -- checker soundness.

(a) explicit-state BFS over instruction streams on the real execute_instructions (proof phase, empty
    theory and a valid theory), collecting every term tagged Proved in any reached state;
(b) derivation closure: saturate the set of theorems under the real rules (ModusPonens, Generalization,
    Substitution, Instantiate) executed as real bytes.
Invariant evaluated on every proved term: every admissible instance (ground truth from refpat, pool of
concrete plugs) is valid in every model of the enumerated class (evaluator E3r inside the harness,
cross-checked against the Python reference E3 on all small patterns on every run).
"""
from __future__ import annotations

import hashlib
import json
import sys

from . import common, par, refpat, semantics, universe
from . import refmachine as rm

PROP = 'C01'


def mvb(ident, E=(), S=(), P=(), N=(), H=()):
    out = [9, ident]
    for lst in (E, S, P, N, H):
        out.append(len(lst))
        out.extend(lst)
    return bytes(out)


FULL_ALPHA = [
    bytes([2, 0]), bytes([2, 1]), bytes([3, 0]), bytes([3, 1]), bytes([4, 0]),
    bytes([137, 0]), bytes([137, 1]),
    mvb(0, E=(0,)), mvb(0, S=(0,)), mvb(0, P=(0,)), mvb(0, N=(0,)), mvb(1, E=(1, 0)),
    bytes([5]), bytes([6]), bytes([8, 0]), bytes([8, 1]), bytes([7, 0]),
    bytes([10, 0]), bytes([11, 0]),
    bytes([12]), bytes([13]), bytes([14]), bytes([15]), bytes([19]),
    bytes([21]), bytes([22, 0]), bytes([22, 1]), bytes([24, 0]),
    bytes([26, 1, 0]), bytes([26, 1, 1]), bytes([26, 2, 0, 1]), bytes([26, 2, 1, 0]),
    bytes([27]), bytes([28]), bytes([29, 0]), bytes([29, 1]),
    # rules named in the document but not implemented on the pinned tree: tried everywhere, so that a
    # newly implemented one enters the search by itself
    bytes([16]), bytes([17]), bytes([18]), bytes([20]), bytes([23]), bytes([25]), bytes([23, 0]), bytes([25, 0]),
]

RULE_ALPHA = [
    bytes([2, 0]), bytes([2, 1]), bytes([3, 0]), bytes([137, 0]), bytes([137, 1]),
    bytes([5]), bytes([8, 0]), bytes([7, 0]),
    bytes([12]), bytes([13]), bytes([14]), bytes([15]), bytes([19]),
    bytes([21]), bytes([22, 0]), bytes([22, 1]), bytes([24, 0]),
    bytes([26, 1, 0]), bytes([26, 1, 1]),
    bytes([27]), bytes([28]), bytes([29, 0]),
]

ALPHAS = {'full': FULL_ALPHA, 'rule': RULE_ALPHA}


def node_count(entry: str) -> int:
    return entry.count('(') - 5 * entry.count('(mv')


def expand_chunk(args):
    alpha_name, g, c, progs, caps = args
    A = ALPHAS[alpha_name]
    h = par.harness()
    h.set_alphabet(A)
    max_stack, max_mem, max_nodes = caps
    reqs = [f'X 2 {common.hx(g)} {common.hx(c)} {common.hx(p)}' for p in progs]
    answers = h.ask_many(reqs)
    children = []
    proved = {}
    st = {'transitions': 0, 'rejected': 0, 'capped': 0}
    local_seen = set()
    for prog, ans in zip(progs, answers):
        for a, rust in zip(A, ans.split('\t')):
            st['transitions'] += 1
            if not rust.startswith('OK '):
                st['rejected'] += 1
                continue
            d = rust[3:]
            hs = hashlib.blake2b(d.encode(), digest_size=16).digest()
            if hs in local_seen:
                continue
            local_seen.add(hs)
            stack, mem, _ = d.split('|')
            se = stack.split(';') if stack else []
            me = mem.split(';') if mem else []
            for e in se + me:
                if e[0] == 'T' and e[2:] not in proved:
                    proved[e[2:]] = prog + a
            if len(se) > max_stack or len(me) > max_mem or any(node_count(e) > max_nodes for e in se + me):
                st['capped'] += 1
                continue
            children.append((prog + a, hs))
    return children, proved, st


def bfs(alpha_name: str, g: bytes, c: bytes, depth: int, caps, agg, seed_name: str, prefix: bytes = b''):
    seen = set()
    frontier = [prefix]
    proved_all: dict[str, str] = {}  # theorem -> a program that reaches a state containing it (approx: frontier prog)
    levels = []
    for lvl in range(1, depth + 1):
        work = [(alpha_name, g, c, ch, caps) for ch in par.chunks(frontier, common.ncpu() * 4)]
        res = par.pmap(expand_chunk, work)
        nxt = []
        for children, proved, st in res:
            for k, v in st.items():
                agg[k] = agg.get(k, 0) + v
            for child, hs in children:
                if hs not in seen:
                    seen.add(hs)
                    nxt.append(child)
            for t, pr in proved.items():
                if t not in proved_all:
                    proved_all[t] = {'how': f'bfs {seed_name}/{alpha_name} depth {lvl}', 'gamma': g.hex(),
                                     'claim': c.hex(), 'proof': pr.hex()}
        levels.append(len(nxt))
        frontier = nxt
        if not frontier:
            break
    agg['states'] = agg.get('states', 0) + len(seen) + 1
    agg['levels'].append({'seed': seed_name, 'alphabet': alpha_name, 'new_states_per_depth': levels})
    return proved_all, (frontier[len(frontier) // 2] if frontier else b'')


# ------------------------------------------------------------------------------------------------
# validity oracle
# ------------------------------------------------------------------------------------------------

def pool_for(k: int, budget: int):
    P = universe.CONCRETE_POOL
    if k <= 0:
        return P[:1]
    n = len(P)
    while n > 2 and n ** k > budget:
        n -= 1
    return P[:n]


def judge_chunk(args):
    """worker: list of theorem strings -> list of (theorem, status, detail, n_instances, n_renamed)"""
    theorems, budget, maxn = args
    h = par.harness()
    out = []
    cache: dict[str, str] = {}

    def ask(insts):
        todo = [s for s in insts if s not in cache]
        if todo:
            ans = h.ask_many([f'E {maxn} {s}' for s in todo])
            for s, a in zip(todo, ans):
                cache[s] = a

    for ts in theorems:
        t = rm.parse(ts)
        occ = refpat.metavars(t)
        if any(m[6] for m in occ):
            out.append((ts, 'UNDECIDED', 'app_ctx_holes constraint', 0, 0, 0))
            continue
        ids = sorted({m[1] for m in occ})
        pool = pool_for(len(ids), budget)
        strict = []
        renamed = []
        for assign, inst, captured in refpat.instances(t, pool):
            if captured:
                inst2, _ = refpat.instantiate_concrete(t, assign, avoid_capture=True)
                renamed.append((assign, rm.show(inst2)))
            else:
                strict.append((assign, rm.show(inst)))
        ask([s for _, s in strict] + [s for _, s in renamed])
        status, detail = 'VALID', None
        nreduced = 0
        for assign, s in strict:
            a = cache[s]
            if a == 'VALID upto2':
                nreduced += 1
            elif a != 'VALID':
                status = 'INVALID' if a.startswith('INVALID') else ('NONMONO' if a.startswith('NONMONO') else 'ERROR')
                detail = {'assignment': {str(k): rm.show(v) for k, v in assign.items()}, 'instance': s, 'model': a}
                break
        nbad_renamed = 0
        if status == 'VALID':
            for assign, s in renamed:
                if not cache[s].startswith('VALID'):
                    nbad_renamed += 1
                    if detail is None:
                        detail = {'note': 'instance needing alpha-renaming is invalid',
                                  'assignment': {str(k): rm.show(v) for k, v in assign.items()}, 'instance': s,
                                  'model': cache[s]}
            if nbad_renamed:
                status = 'VALID_BUT_RENAMED_INVALID'
        out.append((ts, status, detail, len(strict), len(renamed), nreduced))
    ev = h.ask('C')
    return out, int(ev.split()[1]), len(cache)


def judge_all(chk, theorems: dict[str, str], budget, maxn, agg):
    items = sorted(theorems)
    work = [(ch, budget, maxn) for ch in par.chunks(items, common.ncpu() * 4)]
    nviol = 0
    for out, evals, ninst in par.pmap(judge_chunk, work):
        agg['model_evaluations'] = agg.get('model_evaluations', 0) + evals
        agg['distinct_instances'] = agg.get('distinct_instances', 0) + ninst
        for ts, status, detail, ns, nr, nred in out:
            agg['instances_carrier3_skipped'] = agg.get('instances_carrier3_skipped', 0) + nred
            agg['instances_strict'] = agg.get('instances_strict', 0) + ns
            agg['instances_renamed'] = agg.get('instances_renamed', 0) + nr
            agg['verdict_' + status] = agg.get('verdict_' + status, 0) + 1
            if status in ('INVALID', 'NONMONO', 'ERROR'):
                nviol += 1
                sig = {'theorem': ts}
                chk.violation(sig, {'theorem': ts, 'found_at': theorems[ts], 'detail': detail},
                              f'checker certifies an invalid pattern: {ts} (reached by {theorems[ts].get("how")}, proof bytes {theorems[ts].get("proof", "-")}); '
                              f'instance {detail["instance"]} fails: {detail["model"][:120]}')
            elif status == 'VALID_BUT_RENAMED_INVALID':
                chk.note(f'theorem {ts}: instance needing alpha-renaming is invalid: {detail}')
    return nviol


# ------------------------------------------------------------------------------------------------
# (b) derivation closure
# ------------------------------------------------------------------------------------------------

def closure_apply(args):
    """worker: list of rule applications -> list of (result theorem string or None).
    an application is (kind, operand theorem strings..., extra)"""
    apps = args
    h = par.harness()
    reqs = []
    for a in apps:
        kind = a[0]
        if kind == 'mp':
            t1, t2 = rm.parse(a[1]), rm.parse(a[2])
            g = universe.term_bytes(t1) + bytes([30]) + universe.term_bytes(t2) + bytes([30])
            p = bytes([29, 0, 29, 1, 21])
        elif kind == 'gen':
            g = universe.term_bytes(rm.parse(a[1])) + bytes([30])
            p = bytes([29, 0, 22, a[2]])
        elif kind == 'subst':
            g = universe.term_bytes(rm.parse(a[1])) + bytes([30])
            p = universe.term_bytes(a[3]) + bytes([29, 0, 24, a[2]])
        elif kind == 'inst':
            g = universe.term_bytes(rm.parse(a[1])) + bytes([30])
            ids, plugs = a[2], a[3]
            p = b''
            # first id <-> first popped plug (top of stack): push plugs in reverse order
            for pl in reversed(plugs):
                p += universe.term_bytes(pl)
            p += bytes([29, 0, 26, len(ids)] + list(ids))
        elif kind == 'weaken':
            # from |- T derive |- A -> T : Prop1 at [phi0 := T, phi1 := A], then modus ponens with T
            t = rm.parse(a[1])
            g = universe.term_bytes(t) + bytes([30])
            p = universe.term_bytes(a[2]) + universe.term_bytes(t) + bytes([12, 26, 2, 0, 1, 29, 0, 21])
        elif kind == 'axiom':
            g = b''
            p = bytes([a[1]])
        else:
            raise ValueError(kind)
        reqs.append(f'R 2 {common.hx(g)} - {common.hx(p)}')
    ans = h.ask_many(reqs)
    out = []
    for a, r in zip(apps, ans):
        if not r.startswith('OK '):
            out.append(None)
            continue
        stack = r[3:].split('|')[0]
        top = stack.split(';')[-1] if stack else ''
        out.append(top[2:] if top.startswith('T:') else None)
    return out


def derived_seed():
    """proof-phase prefix that derives phi0->phi0 and bot->phi0 with the toolkit's own (real) proofs and saves
    them: a non-initial start state holding derived theorems (every proved term is still judged by the oracle)"""
    from . import pyrun
    from proof_generation.proofs.propositional import Propositional
    prop = Propositional()
    prefix = b''
    for th in (prop.imp_refl(), prop.bot_elim()):
        files = pyrun.serialize_real(pyrun.module_for(th), False)
        p = files['ml-proof']
        assert p[-1] == 30
        if prefix:
            prefix += bytes([27])          # Pop the previous theorem
        prefix += p[:-1] + bytes([28])     # Save instead of Publish
    pyrun.cleanup()
    return prefix


def closure(chk, height: int, max_nodes: int, npool: int, max_apps: int, agg, seed_theorems=(), pool=None, unary_only=False, tag='closure',
            weaken=()):
    if pool is None:
        pool = universe.META_POOL[:npool]
        pool = pool + tuple(t for t in universe.META_POOL[-3:] if t not in pool)
    known: dict[str, str] = {}
    for t in seed_theorems:
        known[t] = {'how': 'derived seed (toolkit proof of phi0->phi0 / bot->phi0 run on the real checker)'}
    # level 0: axiom schemas (all opcodes 12..25 are tried: an implemented one yields a theorem)
    apps = [('axiom', op) for op in range(12, 26) if op not in (21, 22, 24)]
    res = closure_apply(apps)
    new = list(known)
    for a, r in zip(apps, res):
        if r is not None and r not in known:
            known[r] = {'how': f'axiom opcode {a[1]}'}
            new.append(r)
    agg[tag + '_levels'] = [len(new)]
    total_apps = 0
    capped = False
    for lvl in range(1, height + 1):
        allt = list(known)
        newset = set(new)
        apps = []
        mp_apps = []
        if unary_only:
            pass
        elif lvl <= 1:
            for t1 in allt:
                for t2 in allt:
                    if t1 in newset or t2 in newset:
                        mp_apps.append(('mp', t1, t2))
        else:
            # deeper levels: only pairs whose antecedent is textually the second theorem (the condition the rule itself
            # checks; a more liberal modus ponens is still explored exhaustively by the BFS over raw instructions and at level 1)
            by_text = set(allt)
            for t1 in allt:
                if t1.startswith('(imp '):
                    ant = rm.show(rm.parse(t1)[1])
                    if ant in by_text and (t1 in newset or ant in newset):
                        mp_apps.append(('mp', t1, ant))
        for t in new:
            for x in (0, 1):
                apps.append(('gen', t, x))
            for X in (0, 1):
                for pl in pool:
                    apps.append(('subst', t, X, pl))
            for ant in weaken:
                apps.append(('weaken', t, ant))
            mvs = sorted({m[1] for m in refpat.metavars(rm.parse(t))})
            for m in mvs:
                for pl in pool:
                    apps.append(('inst', t, (m,), (pl,)))
            if len(mvs) >= 2:
                for i in range(len(mvs)):
                    for j in range(len(mvs)):
                        if i != j:
                            for p1 in pool[:6]:
                                for p2 in pool[:6]:
                                    apps.append(('inst', t, (mvs[i], mvs[j]), (p1, p2)))
        apps = apps + mp_apps
        if len(apps) > max_apps:
            capped = True
            apps = apps[:max_apps]
        total_apps += len(apps)
        work = par.chunks(apps, common.ncpu() * 8)
        results = par.pmap(closure_apply, work)
        new = []
        k = 0
        accepted = 0
        for chunk, res in zip(work, results):
            for a, r in zip(chunk, res):
                if r is None:
                    continue
                accepted += 1
                if r in known:
                    continue
                if node_count(r) > max_nodes:
                    agg[tag + '_oversize'] = agg.get(tag + '_oversize', 0) + 1
                    continue
                desc = f'{a[0]}(' + ', '.join(x if isinstance(x, str) else json.dumps(x, default=lambda o: rm.show(o) if isinstance(o, tuple) else str(o)) for x in a[1:]) + ')'
                known[r] = {'how': f'{tag} level {lvl}: {desc[:600]}'}
                new.append(r)
        agg[tag + '_levels'].append(len(new))
        agg['closure_accepted'] = agg.get('closure_accepted', 0) + accepted
        if not new:
            break
    agg['closure_applications'] = agg.get('closure_applications', 0) + total_apps
    agg['closure_capped'] = agg.get('closure_capped', False) or capped
    return known


# ------------------------------------------------------------------------------------------------
# E3r vs E3 cross-check
# ------------------------------------------------------------------------------------------------

def cross_chunk(ts):
    h = par.harness()
    bad = []
    ans = h.ask_many([f'E 2 {rm.show(t)}' for t in ts])
    nvalid = 0
    for t, a in zip(ts, ans):
        ref = semantics.valid(t, 2)
        ra = a.split()[0]
        if ra != ref[0]:
            bad.append((rm.show(t), a, ref))
        if ref[0] == 'VALID':
            nvalid += 1
    return bad, nvalid


def cross_check(chk, maxn_nodes, agg):
    ts = [t for t in universe.concrete(maxn_nodes) if refpat.well_formed_concrete(t)]
    res = par.pmap(cross_chunk, par.chunks(ts, common.ncpu() * 4))
    nv = 0
    for bad, nvalid in res:
        nv += nvalid
        for b in bad:
            raise RuntimeError(f'evaluator E3r disagrees with the Python reference E3 on {b}')
    agg['cross_checked'] = len(ts)
    agg['cross_checked_valid'] = nv


# ------------------------------------------------------------------------------------------------

def theory_seed():
    """a valid theory reached through the real gamma and claim phases: tautological axioms"""
    from .universe import term_bytes
    ax = [rm.imp(rm.mv(0), rm.mv(0)), rm.imp(rm.BOT, rm.mv(0)), rm.ex(0, rm.evar(0))]
    g = b''.join(term_bytes(a) + bytes([30]) for a in ax)
    return g, b''


def replay(path: str) -> int:
    v = json.loads(open(path).read())
    ts = v['replay']['theorem']
    print('theorem   :', ts)
    fa = v['replay'].get('found_at')
    print('found at  :', fa)
    if isinstance(fa, dict) and 'proof' in fa:
        h = common.Harness()
        d = h.run(bytes.fromhex(fa['gamma']), bytes.fromhex(fa['claim']), bytes.fromhex(fa['proof']))
        print('checker   :', d)
        if d is None or ('T:' + ts) not in d:
            print('the checker no longer certifies this term on this stream')
            return 0
    out, _, _ = judge_chunk(([ts], 4096, 3))
    print('oracle    :', out[0][1], out[0][2])
    return 1 if out[0][1] in ('INVALID', 'NONMONO', 'ERROR') else 0


def main(argv=None) -> int:
    argv = argv or []
    if argv and argv[0] == '--replay':
        return replay(argv[1])
    chk = common.Check(PROP, 'model_checking')
    thorough = chk.tier == 'thorough'
    common.build_harness()
    agg: dict = {'levels': []}
    cross_check(chk, 3 if not thorough else 4, agg)
    caps = (4, 3, 14)
    theorems: dict[str, str] = {}
    g1, c1 = theory_seed()
    plan = [('full', b'', b'', 4 if not thorough else 5, 'empty'),
            ('rule', b'', b'', 6 if not thorough else 7, 'empty'),
            ('full', g1, c1, 3 if not thorough else 4, 'valid-theory')]
    prefix = derived_seed()
    h = common.Harness()
    d = h.run(b'', b'', prefix)
    assert d is not None, 'derived seed rejected by the checker'
    seed_theorems = [e[2:] for e in d.split('|')[1].split(';') if e.startswith('T:')]
    found, sample = bfs('full', b'', b'', 3 if not thorough else 4, (4, 5, 14), agg, 'derived-theorems', prefix)
    for t, w in found.items():
        theorems.setdefault(t, w)
    chk.sample({'seed': 'derived-theorems', 'program_hex': sample.hex()[-40:], 'seed_theorems': seed_theorems})
    for alpha, g, c, depth, name in plan:
        found, sample = bfs(alpha, g, c, depth, caps, agg, name)
        for t, w in found.items():
            theorems.setdefault(t, w)
        chk.sample({'seed': name, 'alphabet': alpha, 'program_hex': sample.hex()})
    agg['bfs_distinct_theorems'] = len(theorems)
    known = closure(chk, 3, 11 if not thorough else 13, 10 if not thorough else 16,
                    400000 if not thorough else 4000000, agg, seed_theorems)
    for t, w in known.items():
        theorems.setdefault(t, w)
    # chains of the unary rules only (instantiate, generalise, substitute) from the derived theorems: one level deeper than
    # the full closure, over a pool of variables (binder / variable coincidences need several quantifier steps in a row)
    vpool = (rm.evar(0), rm.evar(1), rm.svar(0), rm.svar(1), rm.mv(1),
             # pending substitutions and metavariables constrained in the OTHER sort with the same number
             rm.esub(rm.mv(2), 0, rm.evar(1)), rm.ssub(rm.mv(2), 0, rm.svar(1)), rm.mv(3, S=(0,)), rm.mv(3, E=(0,)),
             # an application-context metavariable whose hole is x0
             rm.mv(3, H=(0,)))
    known2 = closure(chk, 4 if not thorough else 5, 11 if not thorough else 12, 0, 1500000 if not thorough else 6000000, agg,
                     seed_theorems, pool=vpool, unary_only=True, tag='chain')
    for t, w in known2.items():
        theorems.setdefault(t, w)
    # a second chain closure over pending substitutions whose plug mentions the substituted variable itself
    spool = (rm.evar(0), rm.svar(0), rm.ssub(rm.mv(2, E=(0,)), 0, rm.app(rm.sym(0), rm.svar(0))),
             rm.esub(rm.mv(2), 0, rm.app(rm.evar(0), rm.evar(0))))
    known3 = closure(chk, 4 if not thorough else 5, 17 if not thorough else 18, 0, 1500000 if not thorough else 6000000, agg,
                     seed_theorems, pool=spool, unary_only=True, tag='selfplug')
    for t, w in known3.items():
        theorems.setdefault(t, w)
    # a third one: a theorem put behind an antecedent that mentions the same metavariable WITHOUT the constraint the theorem's
    # own occurrences carry (one metavariable number, two constraint sets in one proved term), then instantiated
    wpool = (rm.evar(0), rm.svar(0), rm.mv(0, E=(0,)), rm.mv(0, S=(0,)))
    known4 = closure(chk, 4 if not thorough else 5, 9, 0, 1500000 if not thorough else 6000000, agg,
                     seed_theorems, pool=wpool, unary_only=True, tag='weaken', weaken=(rm.imp(rm.mv(0), rm.mv(0)), rm.mv(0)))
    for t, w in known4.items():
        theorems.setdefault(t, w)
    known3 = dict(known4, **known3)
    known2 = dict(known3, **known2)
    known = dict(known2, **known)
    agg['distinct_theorems'] = len(theorems)
    budget = 64 if not thorough else 512
    maxn = 3
    judge_all(chk, theorems, budget, maxn, agg)
    chk.sample({'theorem': sorted(theorems, key=len)[len(theorems) // 2]})
    chk.set('states', agg.get('states', 0) + len(known))
    chk.set('transitions', agg.get('transitions', 0) + agg.get('closure_applications', 0))
    chk.set('traces_validated_against_impl', agg.get('transitions', 0) + agg.get('closure_applications', 0))
    chk.set('exhaustive', not agg.get('closure_capped', False))
    chk.set('detail', agg)
    chk.set('bounds', {'plan': [(a, n, d) for a, _, _, d, n in plan], 'caps(stack,mem,nodes)': caps,
                       'instance_budget': budget, 'max_carrier': maxn})
    chk.assume('validity is decided over carriers <= %d (carrier 3: restricted application family) and a finite pool of concrete plugs' % maxn)
    chk.assume('instances whose pending substitutions would capture are evaluated with alpha-renaming and reported as notes only')
    chk.assume('every transition executes the real execute_instructions; the validity oracle never consults the checker judgements')
    return chk.finish()


if __name__ == '__main__':
    sys.exit(main(sys.argv[1:]))
