"""Bridge between the repository's Pattern objects and the tuple terms of the reference modules.

`expand` is an *independent* full expansion of notation (Instantiate) into tuple terms: it never calls
Instantiate.simplify / Pattern.instantiate of the code under test."""
from __future__ import annotations

from . import common

common.setup_repo_path()

from frozendict import frozendict  # noqa: E402

import proof_generation.pattern as P  # noqa: E402

from . import refmachine as rm  # noqa: E402
from . import refpat  # noqa: E402


def expand(p, policy: str = 'drop_mv'):
    """repo Pattern -> tuple term, notation fully expanded. Symbols keep their *names* as ids."""
    if isinstance(p, P.EVar):
        return ('evar', p.name)
    if isinstance(p, P.SVar):
        return ('svar', p.name)
    if isinstance(p, P.Symbol):
        return ('sym', p.name)
    if isinstance(p, P.Implies):
        return ('imp', expand(p.left, policy), expand(p.right, policy))
    if isinstance(p, P.App):
        return ('app', expand(p.left, policy), expand(p.right, policy))
    if isinstance(p, P.Exists):
        return ('ex', p.var, expand(p.subpattern, policy))
    if isinstance(p, P.Mu):
        return ('mu', p.var, expand(p.subpattern, policy))
    if isinstance(p, P.MetaVar):
        return ('mv', p.name, tuple(v.name for v in p.e_fresh), tuple(v.name for v in p.s_fresh),
                tuple(v.name for v in p.positive), tuple(v.name for v in p.negative),
                tuple(v.name for v in p.app_ctx_holes))
    if isinstance(p, P.ESubst):
        return ('esub', expand(p.pattern, policy), p.var.name, expand(p.plug, policy))
    if isinstance(p, P.SSubst):
        return ('ssub', expand(p.pattern, policy), p.var.name, expand(p.plug, policy))
    if isinstance(p, P.Instantiate):
        body = expand(p.pattern, policy)
        delta = {k: expand(v, policy) for k, v in p.inst.items()}
        return refpat.minst(body, delta, policy)
    raise TypeError(type(p))


def to_repo(t, symname=None):
    """tuple term -> plain repo Pattern (no notation)"""
    symname = symname or (lambda n: n if isinstance(n, str) else f's{n}')
    k = t[0]
    if k == 'evar':
        return P.EVar(t[1])
    if k == 'svar':
        return P.SVar(t[1])
    if k == 'sym':
        return P.Symbol(symname(t[1]))
    if k == 'imp':
        return P.Implies(to_repo(t[1], symname), to_repo(t[2], symname))
    if k == 'app':
        return P.App(to_repo(t[1], symname), to_repo(t[2], symname))
    if k == 'ex':
        return P.Exists(t[1], to_repo(t[2], symname))
    if k == 'mu':
        return P.Mu(t[1], to_repo(t[2], symname))
    if k == 'mv':
        return P.MetaVar(t[1], tuple(P.EVar(x) for x in t[2]), tuple(P.SVar(x) for x in t[3]),
                         tuple(P.SVar(x) for x in t[4]), tuple(P.SVar(x) for x in t[5]),
                         tuple(P.EVar(x) for x in t[6]))
    if k == 'esub':
        return P.ESubst(to_repo(t[1], symname), P.EVar(t[2]), to_repo(t[3], symname))
    if k == 'ssub':
        return P.SSubst(to_repo(t[1], symname), P.SVar(t[2]), to_repo(t[3], symname))
    raise ValueError(k)


def number_symbols(t, table: dict):
    """replace symbol names by numbers using (and extending) `table` name->id, first come first served"""
    k = t[0]
    if k == 'sym':
        if t[1] not in table:
            table[t[1]] = len(table)
        return ('sym', table[t[1]])
    if k in ('evar', 'svar', 'mv'):
        return t
    if k in ('imp', 'app'):
        a = number_symbols(t[1], table)
        return (k, a, number_symbols(t[2], table))
    if k in ('ex', 'mu'):
        return (k, t[1], number_symbols(t[2], table))
    if k in ('esub', 'ssub'):
        h = number_symbols(t[1], table)
        return (k, h, t[2], number_symbols(t[3], table))
    raise ValueError(k)


def has_notation(p) -> bool:
    if isinstance(p, P.Instantiate):
        return True
    if isinstance(p, (P.Implies, P.App)):
        return has_notation(p.left) or has_notation(p.right)
    if isinstance(p, (P.Exists, P.Mu)):
        return has_notation(p.subpattern)
    if isinstance(p, (P.ESubst, P.SSubst)):
        return has_notation(p.pattern) or has_notation(p.plug)
    return False


# ------------------------------------------------------------------------------------------------
# universe of repo patterns with notation, simplest first
# ------------------------------------------------------------------------------------------------

ATOMS = (P.EVar(0), P.EVar(1), P.SVar(0), P.Symbol('s0'), P.bot(), P.MetaVar(0), P.MetaVar(1), P.top())
UNARY = (('ex0', lambda a: P.Exists(0, a)), ('ex1', lambda a: P.Exists(1, a)), ('mu0', lambda a: P.Mu(0, a)),
         ('neg', lambda a: P.neg(a)))
BINARY = (('imp', P.Implies), ('app', P.App), ('and', lambda a, b: P._and(a, b)), ('or', lambda a, b: P._or(a, b)),
          ('equiv', lambda a, b: P.equiv(a, b)))

_UNI: dict = {}


def repo_universe(maxsize: int, atoms=ATOMS, unary=UNARY, binary=BINARY, extra_meta: bool = False):
    """all patterns with <= maxsize constructor/notation applications. mu bodies must be positive
    (ground truth on the expansion) so that every element is a well-formed pattern."""
    key = (maxsize, atoms, tuple(n for n, _ in unary), tuple(n for n, _ in binary), extra_meta)
    if key in _UNI:
        return _UNI[key]
    by: dict[int, list] = {1: list(atoms)}
    if extra_meta:
        by[1] = by[1] + [P.MetaVar(0, e_fresh=(P.EVar(0),)), P.MetaVar(1, s_fresh=(P.SVar(0),)),
                         P.MetaVar(2, positive=(P.SVar(0),)), P.MetaVar(2, negative=(P.SVar(0),)),
                         P.MetaVar(0, app_ctx_holes=(P.EVar(1),)),
                         P.Instantiate(P.Implies(P.MetaVar(0), P.MetaVar(1)), frozendict({0: P.EVar(0)})),
                         P.Instantiate(P._and(P.MetaVar(0), P.MetaVar(2)), frozendict({0: P.MetaVar(1)})),
                         P.Instantiate(P._and(P.MetaVar(0), P.MetaVar(1)), frozendict({1: P.Symbol('s0')})),
                         P.Instantiate(P.Implies(P.EVar(1), P.MetaVar(0)), frozendict({0: P.Symbol('s0')})),
                         P.Instantiate(P.Exists(0, P.App(P.EVar(1), P.MetaVar(0))), frozendict({0: P.EVar(0)}))]
    def meta_headed(a):
        e = expand(a)
        return e[0] in ('mv', 'esub', 'ssub') and isinstance(a, (P.MetaVar, P.ESubst, P.SSubst))
    for n in range(2, maxsize + 1):
        cur = []
        for name, f in unary:
            for a in by[n - 1]:
                if name == 'mu0':
                    if not rm.positive(expand(a), 0):
                        continue
                cur.append(f(a))
        if extra_meta:
            for a in by[n - 1]:
                if rm.positive(expand(a), 1):
                    cur.append(P.Mu(1, a))
        for k in range(1, n - 1):
            for name, f in binary:
                for a in by[k]:
                    for b in by[n - 1 - k]:
                        cur.append(f(a, b))
            if extra_meta:
                # pending substitutions with every plug: head must be a metavariable or a pending substitution
                for a in by[k]:
                    if not meta_headed(a):
                        continue
                    for b in by[n - 1 - k]:
                        for x in (0, 1):
                            cur.append(P.ESubst(a, P.EVar(x), b))
                        cur.append(P.SSubst(a, P.SVar(0), b))
        by[n] = cur
    out = []
    for n in range(1, maxsize + 1):
        out.extend(by[n])
    _UNI[key] = out
    return out
